#!/bin/bash
# usage: benign_eval.sh <n> <P1> <P2>: copies /tmp/mut<n>/BENIGN/{A,B,C,D} to /verif/benign/ and runs the property's quick check on each
n=$1; P1=$2; P2=$3
for x in A B C D; do
  case $x in A|B) P=$P1;; *) P=$P2;; esac
  d=/verif/benign/${P}${x}; mkdir -p $d
  cp /tmp/mut$n/BENIGN/$x/patch.diff /tmp/mut$n/BENIGN/$x/README.md $d/ 2>/dev/null
  echo "=== ${P}${x}"
  /verif/mutants_eval.sh $d/patch.diff $P
done
