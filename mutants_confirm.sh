#!/bin/bash
# usage: mutants_confirm.sh <worktree> <A|B>   -- confirms a sub-agent's mutant in its scratch worktree
export GOFLAGS=-mod=mod GOPROXY=off GOSUMDB=off GOTOOLCHAIN=local
wt=$1; m=$2; d=$wt/MUTANTS/$m
cd $wt || exit 9
git checkout -q -- . ; git clean -q -fd -e MUTANTS >/dev/null 2>&1
demo=$(ls $d/demo*.go 2>/dev/null | head -1)
pkg=$(grep -m1 '^package ' $demo | awk '{print $2}'); pkg=${pkg%_test}
case $pkg in
  verify) dir=verify;; validate) dir=validate;; abi) dir=abi;; trust) dir=verify/trust;; rtmr) dir=rtmr;; client) dir=client;; pcs) dir=pcs;; main) dir=tools/check;; *) dir=$pkg;;
esac
runre=$(grep -o 'func Test[A-Za-z0-9_]*' $demo | sed 's/func //' | paste -sd'|')
git apply $d/patch.diff || { echo "APPLY-FAILED"; exit 1; }
go build ./... || { echo "BUILD-FAILED"; git checkout -q -- .; exit 1; }
t=$(go test -vet=off -count=1 ./... 2>&1 | grep -v "no test files" | grep -v "^ok" | head -5)
[ -n "$t" ] && { echo "SUITE-FAILS-WITH-PATCH: $t"; git checkout -q -- .; exit 1; }
cp $demo $dir/zz_mutdemo_test.go
RACE=""
r1=$(go test -vet=off -count=1 -run "^($runre)\$" ./$dir/ 2>&1 | tail -1)
case "$r1" in ok*) RACE="-race"; r1=$(go test -race -vet=off -count=1 -run "^($runre)\$" ./$dir/ 2>&1 | tail -1);; esac
git checkout -q -- .
r2=$(go test $RACE -vet=off -count=1 -run "^($runre)\$" ./$dir/ 2>&1 | tail -1)
rm -f $dir/zz_mutdemo_test.go
echo "with-patch: $r1 | clean: $r2"
case "$r1" in FAIL*|*FAIL*) ;; *) echo "DEMO-DOES-NOT-FAIL"; exit 1;; esac
case "$r2" in ok*) echo CONFIRMED;; *) echo "DEMO-FAILS-ON-CLEAN"; exit 1;; esac
