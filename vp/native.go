package zzvp

import (
	"bytes"
	"reflect"
	"unsafe"
)

type snap struct {
	ptr  unsafe.Pointer
	data []byte
	live []byte
}

var snaps []snap

func collect(v reflect.Value, seen map[unsafe.Pointer]bool, f func(b []byte)) {
	switch v.Kind() {
	case reflect.Ptr:
		if v.IsNil() || seen[v.UnsafePointer()] {
			return
		}
		seen[v.UnsafePointer()] = true
		collect(v.Elem(), seen, f)
	case reflect.Interface:
		if !v.IsNil() {
			collect(v.Elem(), seen, f)
		}
	case reflect.Struct:
		for i := 0; i < v.NumField(); i++ {
			collect(v.Field(i), seen, f)
		}
	case reflect.Slice:
		if v.IsNil() {
			return
		}
		if v.Type().Elem().Kind() == reflect.Uint8 {
			if v.Cap() > 0 {
				p := v.UnsafePointer()
				f(unsafe.Slice((*byte)(p), v.Cap()))
			}
			return
		}
		full := v
		if v.CanAddr() || true {
			full = v.Slice3(0, v.Len(), v.Cap())
		}
		for i := 0; i < full.Len(); i++ {
			collect(full.Index(i), seen, f)
		}
	case reflect.Array:
		for i := 0; i < v.Len(); i++ {
			collect(v.Index(i), seen, f)
		}
	case reflect.Map:
		it := v.MapRange()
		for it.Next() {
			collect(it.Value(), seen, f)
		}
	}
}

func nativeFreeze(roots []any) {
	seen := map[unsafe.Pointer]bool{}
	for _, r := range roots {
		collect(reflect.ValueOf(r), seen, func(b []byte) {
			snaps = append(snaps, snap{ptr: unsafe.Pointer(&b[0]), data: append([]byte(nil), b...), live: b})
		})
	}
}

// CheckFrozen reports whether any frozen byte changed since Freeze.
func CheckFrozen() bool {
	for _, s := range snaps {
		if !bytes.Equal(s.data, s.live) {
			return false
		}
	}
	return true
}

func nativeDisjoint(a, b any) bool {
	type rng struct{ lo, hi uintptr }
	var ra []rng
	collect(reflect.ValueOf(a), map[unsafe.Pointer]bool{}, func(x []byte) {
		p := uintptr(unsafe.Pointer(&x[0]))
		ra = append(ra, rng{p, p + uintptr(len(x))})
	})
	ok := true
	collect(reflect.ValueOf(b), map[unsafe.Pointer]bool{}, func(x []byte) {
		p := uintptr(unsafe.Pointer(&x[0]))
		q := p + uintptr(len(x))
		for _, r := range ra {
			if p < r.hi && r.lo < q {
				ok = false
			}
		}
	})
	return ok
}
