// Package zzvp holds the intrinsics that verification harnesses use. Under the
// symbolic executor (gosym) every function here is intercepted by name; the Go
// bodies below are the native replay implementation: they read the values of
// the named inputs from a replay record so that a solver counterexample can be
// re-run against the natively compiled code.
package zzvp

import (
	"encoding/hex"
	"encoding/json"
	"fmt"
	"os"
	"time"
)

// Record is the native replay record (written by gosym for a counterexample).
type Record struct {
	Inputs  map[string]interface{} `json:"inputs"`
	Choices map[string]int64       `json:"choices"`
}

var rec *Record
var seq = map[string]int{}

// Failures collects assertion failures during a native replay.
var Failures []string

// LoadRecord reads the replay record named by VP_REPLAY.
func LoadRecord() error {
	p := os.Getenv("VP_REPLAY")
	if p == "" {
		return fmt.Errorf("VP_REPLAY not set")
	}
	data, err := os.ReadFile(p)
	if err != nil {
		return err
	}
	var wrap struct {
		Inputs  map[string]interface{} `json:"inputs"`
		Choices map[string]int64       `json:"choices"`
	}
	if err := json.Unmarshal(data, &wrap); err != nil {
		return err
	}
	rec = &Record{Inputs: wrap.Inputs, Choices: wrap.Choices}
	seq = map[string]int{}
	Failures = nil
	return nil
}

func fresh(name string) string {
	seq[name]++
	if seq[name] == 1 {
		return name
	}
	return fmt.Sprintf("%s#%d", name, seq[name])
}

func num(name string) uint64 {
	if rec == nil {
		panic("zzvp: symbolic-only intrinsic called natively without a replay record")
	}
	v, ok := rec.Inputs[fresh(name)]
	if !ok {
		return 0
	}
	switch x := v.(type) {
	case string:
		var n uint64
		fmt.Sscan(x, &n)
		return n
	case float64:
		return uint64(x)
	case bool:
		if x {
			return 1
		}
	}
	return 0
}

func Bool(name string) bool { return num(name) != 0 }
func U8(name string) uint8  { return uint8(num(name)) }
func U16(name string) uint16 { return uint16(num(name)) }
func U32(name string) uint32 { return uint32(num(name)) }
func U64(name string) uint64 { return num(name) }
func Int(name string) int    { return int(num(name)) }
func I64(name string) int64  { return int64(num(name)) }

func IntRange(name string, lo, hi int) int { return int(num(name)) }

func rawBytes(name string) []byte {
	if rec == nil {
		panic("zzvp: symbolic-only intrinsic called natively without a replay record")
	}
	nm := fresh(name)
	s, _ := rec.Inputs[nm].(string)
	b, _ := hex.DecodeString(s)
	return b
}

// Bytes returns an input byte slice with len = cap = n.
func Bytes(name string, n int) []byte {
	b := rawBytes(name)
	out := make([]byte, n)
	copy(out, b)
	return out
}

// BytesCap returns an input byte slice of length n and capacity c; the spare
// capacity is input data too.
func BytesCap(name string, n, c int) []byte {
	b := rawBytes(name)
	out := make([]byte, c)
	copy(out, b)
	return out[:n]
}

// Str returns an input string of length <= maxLen.
func Str(name string, maxLen int) string {
	if rec == nil {
		panic("zzvp: symbolic-only intrinsic called natively without a replay record")
	}
	nm := fresh(name)
	n := 0
	if f, ok := rec.Inputs[nm+"#len"].(float64); ok {
		n = int(f)
	}
	s, _ := rec.Inputs[nm].(string)
	b, _ := hex.DecodeString(s)
	for len(b) < n {
		b = append(b, 0)
	}
	return string(b[:n])
}

// StrN returns an input string of exactly n bytes.
func StrN(name string, n int) string { return string(Bytes(name, n)) }

// Atom returns an opaque input string that supports only equality.
func Atom(name string) string {
	if rec == nil {
		panic("zzvp: symbolic-only intrinsic called natively without a replay record")
	}
	nm := fresh(name)
	if s, ok := rec.Inputs[nm].(string); ok {
		if len(s) > 4 && s[:4] == "str:" {
			return s[4:] // the model value is the identity of this concrete string
		}
		return "atom-" + s
	}
	return "atom-0"
}

// Choose forks concretely over 0..k-1 (shape enumeration).
func Choose(name string, k int) int {
	if rec == nil {
		panic("zzvp: symbolic-only intrinsic called natively without a replay record")
	}
	return int(rec.Choices[name])
}

type skip struct{}

// Assume restricts the inputs; natively a violated assumption aborts the replay.
func Assume(c bool) {
	if !c {
		panic(skip{})
	}
}

// Assert is the property; natively a failure is recorded.
func Assert(label string, c bool) {
	if !c {
		Failures = append(Failures, label)
	}
}

// Reach declares a label that must be reachable with c true on some path.
func Reach(label string, c bool) {}

func And(c ...bool) bool {
	for _, x := range c {
		if !x {
			return false
		}
	}
	return true
}

func Or(c ...bool) bool {
	for _, x := range c {
		if x {
			return true
		}
	}
	return false
}

func Implies(a, b bool) bool { return !a || b }

func IteInt(c bool, a, b int) int {
	if c {
		return a
	}
	return b
}
func IteI64(c bool, a, b int64) int64 {
	if c {
		return a
	}
	return b
}
func IteU8(c bool, a, b uint8) uint8 {
	if c {
		return a
	}
	return b
}
func IteU16(c bool, a, b uint16) uint16 {
	if c {
		return a
	}
	return b
}
func IteU32(c bool, a, b uint32) uint32 {
	if c {
		return a
	}
	return b
}
func IteU64(c bool, a, b uint64) uint64 {
	if c {
		return a
	}
	return b
}
func IteBool(c bool, a, b bool) bool {
	if c {
		return a
	}
	return b
}

// BytesEq is whole-slice equality as one term.
func BytesEq(a, b []byte) bool { return string(a) == string(b) }

// Unwind sets the loop unwinding bound for symbolic loops.
func Unwind(n int) {}

// ExpectPanic marks panics on the rest of this path as the asserted outcome.
func ExpectPanic(label string) {}

// Note records a remark in the evidence.
func Note(s string) {}

// Bound records a stated bound in the evidence.
func Bound(name, value string) {}

// UFBool / UFU64 / UFBytes are uninterpreted functions (symbolic only).
func UFBool(name string, args ...any) bool {
	panic("zzvp: UF called natively")
}
func UFU64(name string, args ...any) uint64 { panic("zzvp: UF called natively") }
func UFBytes(name string, n int, args ...any) []byte {
	panic("zzvp: UF called natively")
}

var ghost = map[any]map[string]any{}

// GhostSet / GhostGet attach model state to heap objects.
func GhostSet(obj any, key string, v any) {
	panic("zzvp: ghost state is symbolic only")
}
func GhostGet(obj any, key string) any { panic("zzvp: ghost state is symbolic only") }

// SameObject reports whether two slices share a backing object.
func SameObject(a, b []byte) bool {
	if cap(a) == 0 || cap(b) == 0 {
		return false
	}
	return &a[:cap(a)][cap(a)-1] == &b[:cap(b)][cap(b)-1]
}

// Freeze makes everything reachable from the roots read-only (to capacity).
// Natively it snapshots; CheckFrozen compares.
func Freeze(roots ...any) { nativeFreeze(roots) }

// Disjoint reports that no byte memory is shared between a and b.
func Disjoint(a, b any) bool { return nativeDisjoint(a, b) }

// ForkReads makes reads at symbolic indexes case-split on the region of the
// buffer they fall into (one small query per region instead of one large one).
func ForkReads(on bool) {}

// IsSkip reports whether a recovered panic value is a violated assumption.
func IsSkip(r any) bool { _, ok := r.(skip); return ok }

// Model clock and channels (symbolic only; used by the retry-getter harness).
func Now() int64      { panic("zzvp: model clock is symbolic only") }
func Advance(d int64) { panic("zzvp: model clock is symbolic only") }

// TimerChan / DoneChan return channels that become ready d nanoseconds of model time from now.
func TimerChan(d int64) <-chan time.Time { panic("zzvp: model channels are symbolic only") }
func DoneChan(d int64) <-chan struct{}  { panic("zzvp: model channels are symbolic only") }

// SameRef reports whether two maps / slices / pointers are the very same object.
func SameRef(a, b any) bool { panic("zzvp: symbolic only") }

// FreezeGlobals makes the repository's package-level variables read-only (symbolic only).
func FreezeGlobals() {}

// EndPath ends the current path normally (used by the os.Exit model).
func EndPath() { panic("zzvp: symbolic only") }

// ---- translator self-test support ----

// File returns the content of a file of the repository (path relative to its root).
func File(rel string) []byte {
	root := os.Getenv("VP_REPO")
	if root == "" {
		root = "/repo"
	}
	b, err := os.ReadFile(root + "/" + rel)
	if err != nil {
		panic(err)
	}
	return b
}

// Seed returns VERIF_SEED.
func Seed() uint64 {
	var n uint64
	fmt.Sscan(os.Getenv("VERIF_SEED"), &n)
	return n
}

// Emits collects the values emitted by a native self-test run.
var Emits []string

// Emit records a concrete value; the symbolic executor (in fully concrete mode) and the
// native run must emit identical sequences.
func Emit(name string, v any) {
	var s string
	switch x := v.(type) {
	case nil:
		s = "nil"
	case error:
		s = "error"
	case bool:
		s = fmt.Sprint(x)
	case []byte:
		s = "b:" + hex.EncodeToString(x)
	case string:
		s = "s:" + x
	case int:
		s = fmt.Sprint(x)
	case uint32:
		s = fmt.Sprint(x)
	case uint64:
		s = fmt.Sprint(x)
	case uint16:
		s = fmt.Sprint(x)
	case int64:
		s = fmt.Sprint(x)
	case int32:
		s = fmt.Sprint(x)
	case int16:
		s = fmt.Sprint(x)
	case int8:
		s = fmt.Sprint(x)
	case uint8:
		s = fmt.Sprint(x)
	default:
		s = fmt.Sprintf("ptr")
	}
	Emits = append(Emits, name+"="+s)
}

// ClockTime is the instant ns nanoseconds of model time after a fixed epoch (symbolically: a time
// value whose arithmetic stays on the nanosecond count).
func ClockTime(ns int64) time.Time { return time.Unix(1700000000, 0).Add(time.Duration(ns)) }

// MkTime is time.Unix(sec, nsec).UTC() for 0 <= nsec < 1e9.
func MkTime(sec, nsec int64) time.Time { return time.Unix(sec, nsec).UTC() }
