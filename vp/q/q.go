// Package q builds structurally valid QuoteV4 messages whose contents are
// verification inputs (symbolic under gosym, taken from the replay record
// natively). The layout sizes are written out here from Intel's TDX DCAP quote
// format (v4) and are deliberately not imported from package abi.
package q

import (
	pb "github.com/google/go-tdx-guest/proto/tdx"
	vp "github.com/google/go-tdx-guest/zzvp"
)

// Shape selects the variable-length parts of a quote.
type Shape struct {
	AuthLen  int    // QE authentication data length
	Chain    []byte // PCK certificate chain bytes (certification data type 5)
	Extra    []byte // bytes after the signed data (nil for none)
	SpareCap int    // extra capacity behind every byte field (0: cap == len)
	// WideInts: the uint32 message fields that occupy 2 bytes on the wire (QE ISV product id and
	// SVN) are unconstrained 32-bit values; a structurally valid message has them below 2^16.
	WideInts bool
}

func field(name string, n, spare int) []byte {
	if spare == 0 {
		return vp.Bytes(name, n)
	}
	return vp.BytesCap(name, n, n+spare)
}

// Valid returns a message that satisfies abi.CheckQuoteV4 for every value of
// its inputs.
func Valid(p string, s Shape) *pb.QuoteV4 {
	sp := s.SpareCap
	isvProd, isvSvn := uint32(vp.U16(p+"qe_isvprodid")), uint32(vp.U16(p+"qe_isvsvn"))
	if s.WideInts {
		isvProd, isvSvn = vp.U32(p+"qe_isvprodid32"), vp.U32(p+"qe_isvsvn32")
	}
	rt := make([][]byte, 4)
	for i := range rt {
		rt[i] = field(p+"rtmr"+string(rune('0'+i)), 48, sp)
	}
	return &pb.QuoteV4{
		Header: &pb.Header{
			Version:            4,
			AttestationKeyType: 2,
			TeeType:            0x81,
			QeSvn:              field(p+"qesvn", 2, sp),
			PceSvn:             field(p+"pcesvn", 2, sp),
			QeVendorId:         field(p+"qevendor", 16, sp),
			UserData:           field(p+"userdata", 20, sp),
		},
		TdQuoteBody: &pb.TDQuoteBody{
			TeeTcbSvn:      field(p+"teetcbsvn", 16, sp),
			MrSeam:         field(p+"mrseam", 48, sp),
			MrSignerSeam:   field(p+"mrsignerseam", 48, sp),
			SeamAttributes: field(p+"seamattr", 8, sp),
			TdAttributes:   field(p+"tdattr", 8, sp),
			Xfam:           field(p+"xfam", 8, sp),
			MrTd:           field(p+"mrtd", 48, sp),
			MrConfigId:     field(p+"mrconfigid", 48, sp),
			MrOwner:        field(p+"mrowner", 48, sp),
			MrOwnerConfig:  field(p+"mrownerconfig", 48, sp),
			Rtmrs:          rt,
			ReportData:     field(p+"reportdata", 64, sp),
		},
		SignedDataSize: vp.U32(p + "signeddatasize"),
		SignedData: &pb.Ecdsa256BitQuoteV4AuthData{
			Signature:           field(p+"sig", 64, sp),
			EcdsaAttestationKey: field(p+"attkey", 64, sp),
			CertificationData: &pb.CertificationData{
				CertificateDataType: 6,
				Size:                vp.U32(p + "certsize"),
				QeReportCertificationData: &pb.QEReportCertificationData{
					QeReport: &pb.EnclaveReport{
						CpuSvn:     field(p+"qe_cpusvn", 16, sp),
						MiscSelect: vp.U32(p + "qe_miscselect"),
						Reserved1:  field(p+"qe_res1", 28, sp),
						Attributes: field(p+"qe_attr", 16, sp),
						MrEnclave:  field(p+"qe_mrenclave", 32, sp),
						Reserved2:  field(p+"qe_res2", 32, sp),
						MrSigner:   field(p+"qe_mrsigner", 32, sp),
						Reserved3:  field(p+"qe_res3", 96, sp),
						IsvProdId:  isvProd,
						IsvSvn:     isvSvn,
						Reserved4:  field(p+"qe_res4", 60, sp),
						ReportData: field(p+"qe_reportdata", 64, sp),
					},
					QeReportSignature: field(p+"qe_sig", 64, sp),
					QeAuthData: &pb.QeAuthData{
						ParsedDataSize: uint32(s.AuthLen),
						Data:           field(p+"qe_auth", s.AuthLen, sp),
					},
					PckCertificateChainData: &pb.PCKCertificateChainData{
						CertificateDataType: 5,
						Size:                uint32(len(s.Chain)),
						PckCertChain:        s.Chain,
					},
				},
			},
		},
		ExtraBytes: s.Extra,
	}
}

func afield(name string, max int) []byte {
	n := vp.IntRange(name+"_len", 0, max)
	return vp.Bytes(name, n)
}

// Arbitrary returns a structurally arbitrary message: sub-message number
// nilWhich (1..8) is absent (0: all present), every bytes field has a symbolic
// length in 0..max and symbolic content, every integer is unconstrained, and
// there are nRtmrs RTMR entries.
func Arbitrary(p string, nilWhich, nRtmrs, max int) *pb.QuoteV4 {
	quote := &pb.QuoteV4{SignedDataSize: vp.U32(p + "signeddatasize"), ExtraBytes: afield(p+"extra", max)}
	if nilWhich != 1 {
		quote.Header = &pb.Header{
			Version: vp.U32(p + "version"), AttestationKeyType: vp.U32(p + "akt"), TeeType: vp.U32(p + "teetype"),
			QeSvn: afield(p+"qesvn", max), PceSvn: afield(p+"pcesvn", max), QeVendorId: afield(p+"qevendor", max), UserData: afield(p+"userdata", max),
		}
	}
	if nilWhich != 2 {
		b := &pb.TDQuoteBody{
			TeeTcbSvn: afield(p+"teetcbsvn", max), MrSeam: afield(p+"mrseam", max), MrSignerSeam: afield(p+"mrsignerseam", max),
			SeamAttributes: afield(p+"seamattr", max), TdAttributes: afield(p+"tdattr", max), Xfam: afield(p+"xfam", max),
			MrTd: afield(p+"mrtd", max), MrConfigId: afield(p+"mrconfigid", max), MrOwner: afield(p+"mrowner", max),
			MrOwnerConfig: afield(p+"mrownerconfig", max), ReportData: afield(p+"reportdata", max),
		}
		for i := 0; i < nRtmrs; i++ {
			b.Rtmrs = append(b.Rtmrs, afield(p+"rtmr"+string(rune('0'+i)), max))
		}
		quote.TdQuoteBody = b
	}
	if nilWhich == 3 {
		return quote
	}
	sd := &pb.Ecdsa256BitQuoteV4AuthData{Signature: afield(p+"sig", max), EcdsaAttestationKey: afield(p+"attkey", max)}
	quote.SignedData = sd
	if nilWhich == 4 {
		return quote
	}
	cd := &pb.CertificationData{CertificateDataType: vp.U32(p + "certtype"), Size: vp.U32(p + "certsize")}
	sd.CertificationData = cd
	if nilWhich == 5 {
		return quote
	}
	qr := &pb.QEReportCertificationData{QeReportSignature: afield(p+"qe_sig", max)}
	cd.QeReportCertificationData = qr
	if nilWhich != 6 {
		qr.QeReport = &pb.EnclaveReport{
			CpuSvn: afield(p+"qe_cpusvn", max), MiscSelect: vp.U32(p + "qe_miscselect"), Reserved1: afield(p+"qe_res1", max),
			Attributes: afield(p+"qe_attr", max), MrEnclave: afield(p+"qe_mrenclave", max), Reserved2: afield(p+"qe_res2", max),
			MrSigner: afield(p+"qe_mrsigner", max), Reserved3: afield(p+"qe_res3", max), IsvProdId: vp.U32(p + "qe_isvprodid"),
			IsvSvn: vp.U32(p + "qe_isvsvn"), Reserved4: afield(p+"qe_res4", max), ReportData: afield(p+"qe_reportdata", max),
		}
	}
	if nilWhich != 7 {
		qr.QeAuthData = &pb.QeAuthData{ParsedDataSize: vp.U32(p + "authsize"), Data: afield(p+"qe_auth", max)}
	}
	if nilWhich != 8 {
		qr.PckCertificateChainData = &pb.PCKCertificateChainData{CertificateDataType: vp.U32(p + "pcktype"), Size: vp.U32(p + "pcksize"), PckCertChain: afield(p+"chain", max)}
	}
	return quote
}
