package verify

import (
	"crypto/x509"
	"time"

	vp "github.com/google/go-tdx-guest/zzvp"
)

func unexpired(c *x509.Certificate, t time.Time) bool { return !t.After(c.NotAfter) }

func h06(getCollateral, checkRev, nilNow bool) { h06u(getCollateral, checkRev, nilNow, false) }

// used: the same options value verified the quote before, at other (arbitrary) times; what it
// concluded then says nothing about the times asked about now.
func h06u(getCollateral, checkRev, nilNow, used bool) {
	nDist := 0
	if checkRev {
		nDist = 1
	}
	w := mkCollateralWorld(0, 1, 0, 1, nDist, 0)
	quote := mkQuote(w.pki, 0)
	now := symTimeSet("t")
	opts := &Options{GetCollateral: getCollateral, CheckRevocations: checkRev, Getter: w.getter, Now: now}
	if nilNow {
		// the caller supplies no time set: everything is judged at the current time
		modelNow = symTime("wallclock")
		opts.Now = nil
		now = &TimeSet{PckCertChain: modelNow, TcbInfo: modelNow, QeIdentity: modelNow, PckCrl: modelNow, RootCaCrl: modelNow}
	}
	if used {
		later := opts.Now
		opts.Now = symTimeSet("earlier")
		vp.Reach("earlier-verification-accepted", TdxQuote(quote, opts) == nil)
		opts.Now = later
	}
	err := TdxQuote(quote, opts)
	ok := err == nil
	vp.Reach("accept", ok)
	vp.Reach("reject", !ok)
	// the five instants are unconstrained relative to each other: using the wrong one is visible
	if !nilNow && getCollateral {
		vp.Reach("times-pairwise-different-accept", vp.And(ok, !now.PckCertChain.Equal(now.TcbInfo), !now.TcbInfo.Equal(now.QeIdentity)))
	}
	t := now.PckCertChain
	vp.Assert("pck-chain-unexpired-at-its-time", vp.Implies(ok, vp.And(unexpired(w.leaf, t), unexpired(w.inter, t), unexpired(w.root, t))))
	// the intermediate is on the validated path unless a configured root issued the leaf directly
	direct := false
	for _, r := range w.configuredRoots() {
		direct = vp.Or(direct, issuedBy(w.leaf, r), certID(w.leaf) == certID(r))
	}
	vp.Assert("pck-path-inside-validity-at-its-time", vp.Implies(ok, vp.And(inWindow(w.leaf, t), vp.Or(inWindow(w.inter, t), direct))))
	if !getCollateral {
		return
	}
	tt, tq := now.TcbInfo, now.QeIdentity
	vp.Assert("tcbinfo-not-past-nextupdate-at-its-time", vp.Implies(ok, !tt.After(w.signedTcb.NextUpdate)))
	vp.Assert("tcbinfo-issuer-chain-unexpired-at-its-time", vp.Implies(ok, vp.And(unexpired(w.tcbDoc.chain.signer, tt), unexpired(w.tcbDoc.chain.root, tt), inWindow(w.tcbDoc.chain.signer, tt))))
	vp.Assert("qeidentity-not-past-nextupdate-at-its-time", vp.Implies(ok, !tq.After(w.signedQe.NextUpdate)))
	vp.Assert("qeidentity-issuer-chain-unexpired-at-its-time", vp.Implies(ok, vp.And(unexpired(w.qeDoc.chain.signer, tq), unexpired(w.qeDoc.chain.root, tq), inWindow(w.qeDoc.chain.signer, tq))))
	if !checkRev {
		return
	}
	tp, tr := now.PckCrl, now.RootCaCrl
	vp.Assert("pck-crl-not-past-nextupdate-at-its-time", vp.Implies(ok, !tp.After(w.pckCrl.crl.NextUpdate)))
	vp.Assert("pck-crl-issuer-chain-unexpired-at-its-time", vp.Implies(ok, vp.And(unexpired(w.pckCrlHdr.signer, tp), unexpired(w.pckCrlHdr.root, tp))))
	vp.Assert("root-crl-not-past-nextupdate-at-its-time", vp.Implies(ok, !tr.After(w.rootCrls[0].crl.NextUpdate)))
}

func H06a_base()              { h06(false, false, false) }
func H06b_collateral()        { h06(true, false, false) }
func H06c_revocation()        { h06(true, true, false) }
func H06d_base_defaultTime()  { h06(false, false, true) }
func H06e_coll_defaultTime()  { h06(true, false, true) }
func T06f_rev_defaultTime()   { h06(true, true, true) }

// H06g: the expiry conditions on an options value that verified the same quote at earlier times.
func H06g_ReusedOptions_collateral() { h06u(true, false, false, true) }
func T06h_ReusedOptions_revocation() { h06u(true, true, false, true) }
