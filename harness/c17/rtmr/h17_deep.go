package rtmr

import (
	"crypto"
	"errors"
	"io/fs"
	"os"
	"strconv"
	"strings"

	"github.com/google/go-configfs-tsm/configfs/configfsi"
	vp "github.com/google/go-tdx-guest/zzvp"
)

// Deep mode: go-configfs-tsm (rtmr, configfsi) is EXECUTED, not replaced by its contract, against a
// model of the configfs directory tree: whatever the code under test asks of the dependency
// (ExtendDigest, GetDigest, ...) ends in file operations the model records. Indices are chosen from
// a list so that every path and decimal string is concrete.
//
//vp:transparent github.com/google/go-configfs-tsm/
//vp:transparent path

type fsEntry struct {
	name     string
	bound    bool
	index    int
	reg      []byte
	extends  int
	lastDig  []byte
}

type fsTSM struct {
	entries   []*fsEntry
	mutations []string // every operation that changes the tree, in order
	failWrite bool
}

type fsDirEnt struct{ name string }

func (d fsDirEnt) Name() string               { return d.name }
func (d fsDirEnt) IsDir() bool                { return true }
func (d fsDirEnt) Type() fs.FileMode          { return fs.ModeDir }
func (d fsDirEnt) Info() (fs.FileInfo, error) { return nil, errors.New("not modelled") }

const rtmrRoot = "/sys/kernel/config/tsm/rtmrs"

var errFS = errors.New("configfs: operation failed")

func (t *fsTSM) find(name string) *fsEntry {
	for _, e := range t.entries {
		if e.name == name {
			return e
		}
	}
	return nil
}

func (t *fsTSM) MkdirTemp(dir, pattern string) (string, error) {
	if dir != rtmrRoot {
		return "", errFS
	}
	name := strings.TrimSuffix(pattern, "*") + "tmp" + strconv.Itoa(len(t.entries))
	t.entries = append(t.entries, &fsEntry{name: name, reg: make([]byte, 48)})
	t.mutations = append(t.mutations, "mkdir "+name)
	return dir + "/" + name, nil
}

func (t *fsTSM) ReadDir(dirname string) ([]os.DirEntry, error) {
	if dirname != rtmrRoot {
		return nil, errFS
	}
	var out []os.DirEntry
	for _, e := range t.entries {
		out = append(out, fsDirEnt{e.name})
	}
	return out, nil
}

func (t *fsTSM) lookup(name string) (*fsEntry, string, error) {
	p, err := configfsi.ParseTsmPath(name)
	if err != nil || p.Subsystem != "rtmrs" {
		return nil, "", errFS
	}
	e := t.find(p.Entry)
	if e == nil {
		return nil, "", errFS
	}
	return e, p.Attribute, nil
}

func (t *fsTSM) ReadFile(name string) ([]byte, error) {
	e, attr, err := t.lookup(name)
	if err != nil {
		return nil, err
	}
	switch attr {
	case "index":
		if !e.bound {
			return nil, errFS
		}
		return []byte(strconv.Itoa(e.index) + "\n"), nil
	case "digest":
		return append([]byte(nil), e.reg...), nil
	case "tcg_map":
		return []byte("17\n"), nil
	}
	return nil, errFS
}

func (t *fsTSM) WriteFile(name string, contents []byte) error {
	e, attr, err := t.lookup(name)
	if err != nil {
		return err
	}
	switch attr {
	case "index":
		v, err := strconv.Atoi(strings.TrimSpace(string(contents)))
		if err != nil || v < 0 || e.bound {
			return errFS
		}
		t.mutations = append(t.mutations, "index "+e.name)
		e.bound, e.index = true, v
		return nil
	case "digest":
		t.mutations = append(t.mutations, "digest "+e.name)
		if t.failWrite || !e.bound || len(contents) != 48 {
			return errFS
		}
		e.extends++
		e.lastDig = append([]byte(nil), contents...)
		e.reg = vp.UFBytes("SHA384_extend", 48, e.reg, contents)
		return nil
	}
	return errFS
}

func (t *fsTSM) RemoveAll(path string) error {
	t.mutations = append(t.mutations, "remove "+path)
	return errFS
}

var deepIndices = []int{-1, 0, 1, 2, 3, 4}

// deepWorld: no entry / an entry bound to the requested index / an entry bound to another index / both.
func deepWorld(idx int) (*fsTSM, *fsEntry) {
	t := &fsTSM{failWrite: vp.Choose("tsmWriteFails", 2) == 1}
	var own *fsEntry
	pre := vp.Choose("existingEntries", 4)
	if pre == 2 || pre == 3 {
		t.entries = append(t.entries, &fsEntry{name: "other", bound: true, index: idx + 1, reg: vp.Bytes("reg_other", 48)})
	}
	if (pre == 1 || pre == 3) && idx >= 0 {
		own = &fsEntry{name: "mine", bound: true, index: idx, reg: vp.Bytes("reg_mine", 48)}
		t.entries = append(t.entries, own)
	}
	return t, own
}

func checkDeep(t *fsTSM, own *fsEntry, idx int, digest []byte, valid bool, err error, before []byte) {
	vp.Assert("invalid-request-changes-nothing-in-the-tsm", vp.Implies(!valid, vp.And(err != nil, len(t.mutations) == 0)))
	if !valid {
		return
	}
	// the entry the digest must go to
	target := own
	if own == nil {
		// none existed: exactly one new entry, bound to the index, then the digest write
		vp.Assert("new-entry-created-and-bound-then-extended", len(t.mutations) == 3 &&
			strings.HasPrefix(t.mutations[0], "mkdir ") && strings.HasPrefix(t.mutations[1], "index ") && strings.HasPrefix(t.mutations[2], "digest "))
		if len(t.entries) > 0 {
			target = t.entries[len(t.entries)-1]
		}
	} else {
		vp.Assert("existing-entry-is-re-used", len(t.mutations) == 1 && t.mutations[0] == "digest mine")
	}
	if target == nil {
		return
	}
	vp.Assert("entry-is-bound-to-the-requested-index", target.bound && target.index == idx)
	vp.Assert("error-iff-the-tsm-write-fails", (err != nil) == t.failWrite)
	if err == nil {
		vp.Assert("exactly-one-extend-on-that-entry", target.extends == 1)
		vp.Assert("extended-with-exactly-the-digest", vp.BytesEq(target.lastDig, digest))
		vp.Assert("register-is-the-extend-of-its-old-value", vp.BytesEq(target.reg, vp.UFBytes("SHA384_extend", 48, before, digest)))
	}
	for _, e := range t.entries {
		if e != target {
			vp.Assert("other-entries-untouched", e.extends == 0)
		}
	}
}

// H17d: ExtendDigestClient down to the file operations.
func H17d_Deep_ExtendDigest() {
	idx := deepIndices[vp.Choose("index", len(deepIndices))]
	t, own := deepWorld(idx)
	digest := vp.Bytes("digest", vp.IntRange("digest_len", 46, 50))
	before := make([]byte, 48)
	if own != nil {
		before = own.reg
	}
	err := ExtendDigestClient(t, idx, digest)
	valid := idx >= 0 && idx <= 3 && len(digest) == 48
	vp.Reach("valid-request-accepted", valid && err == nil)
	vp.Reach("invalid-request", !valid)
	checkDeep(t, own, idx, digest, valid, err, before)
}

// H17e: ExtendEventLogClient down to the file operations.
func H17e_Deep_ExtendEventLog() {
	idx := deepIndices[vp.Choose("index", len(deepIndices))]
	t, own := deepWorld(idx)
	algo := []crypto.Hash{crypto.SHA384, crypto.SHA256, crypto.SHA512}[vp.Choose("hashAlgo", 3)]
	log := vp.Bytes("eventlog", vp.IntRange("log_len", 0, 40))
	before := make([]byte, 48)
	if own != nil {
		before = own.reg
	}
	err := ExtendEventLogClient(t, idx, algo, log)
	valid := idx >= 0 && idx <= 3 && algo == crypto.SHA384 && len(log) > 0
	vp.Reach("valid-request-accepted", valid && err == nil)
	checkDeep(t, own, idx, sha384(log), valid, err, before)
}

// H17f: two accepted requests for one index: the second re-uses the entry the first created,
// and the register is the extend chain in call order.
func H17f_Deep_TwoRequestsOneIndex() {
	idx := deepIndices[1+vp.Choose("index", 4)]
	t := &fsTSM{}
	d1, d2 := vp.Bytes("digest1", 48), vp.Bytes("digest2", 48)
	err1 := ExtendDigestClient(t, idx, d1)
	err2 := ExtendDigestClient(t, idx, d2)
	vp.Assert("both-accepted", err1 == nil && err2 == nil)
	vp.Assert("one-entry-for-the-index", len(t.entries) == 1)
	if len(t.entries) == 1 {
		zero := make([]byte, 48)
		vp.Assert("register-is-the-extend-chain-in-call-order", vp.BytesEq(t.entries[0].reg,
			vp.UFBytes("SHA384_extend", 48, vp.UFBytes("SHA384_extend", 48, zero, d1), d2)))
	}
}

// thorough tier: deep mode with every digest length 0..64
func T17g_Deep_ExtendDigest_AllLengths() {
	idx := deepIndices[vp.Choose("index", len(deepIndices))]
	t, own := deepWorld(idx)
	digest := vp.Bytes("digest", vp.IntRange("digest_len", 0, 64))
	before := make([]byte, 48)
	if own != nil {
		before = own.reg
	}
	err := ExtendDigestClient(t, idx, digest)
	valid := idx >= 0 && idx <= 3 && len(digest) == 48
	vp.Reach("valid-request-accepted", valid && err == nil)
	checkDeep(t, own, idx, digest, valid, err, before)
}
