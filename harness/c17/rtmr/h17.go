package rtmr

import (
	"crypto"
	"crypto/sha512"
	"errors"
	"os"

	"github.com/google/go-configfs-tsm/configfs/configfsi"
	vp "github.com/google/go-tdx-guest/zzvp"
)

// hTSM is a model TSM: it counts every operation it receives through the
// client interface and holds four registers of symbolic content.
type hTSM struct {
	ops      int // direct file-system operations from the code under test
	nExtend  int
	extIndex int
	extDig   []byte
	fail     bool
	regs     [4][]byte
}

func (t *hTSM) MkdirTemp(dir, pattern string) (string, error) { t.ops++; return "", errors.New("unused") }
func (t *hTSM) ReadFile(name string) ([]byte, error)          { t.ops++; return nil, errors.New("unused") }
func (t *hTSM) ReadDir(dirname string) ([]os.DirEntry, error) { t.ops++; return nil, errors.New("unused") }
func (t *hTSM) WriteFile(name string, contents []byte) error  { t.ops++; return errors.New("unused") }
func (t *hTSM) RemoveAll(path string) error                   { t.ops++; return errors.New("unused") }

var errTSM = errors.New("tsm write failed")

// Contract of go-configfs-tsm/rtmr.ExtendDigest (v0.3.2): for a 48-byte digest
// and a non-negative index it performs exactly one digest write, of exactly the
// given digest, on the entry whose index file holds the index (re-using the
// entry when it exists); the TSM then extends that register.
//
//vp:model github.com/google/go-configfs-tsm/rtmr.ExtendDigest
func m_ExtendDigest(client configfsi.Client, rtmrIndex int, digest []byte) error {
	t := client.(*hTSM)
	t.nExtend++
	t.extIndex = rtmrIndex
	t.extDig = append([]byte(nil), digest...)
	if len(digest) != 48 || rtmrIndex < 0 || t.fail {
		return errTSM
	}
	if rtmrIndex < 4 {
		t.regs[rtmrIndex] = vp.UFBytes("SHA384_extend", 48, t.regs[rtmrIndex], digest)
	}
	return nil
}

// sha384 is the specification's hash: the engine treats crypto/sha512 (New384, Sum384 and
// crypto.SHA384.New alike) as one uninterpreted function of the message bytes.
func sha384(b []byte) []byte {
	d := sha512.Sum384(b)
	return d[:]
}

func newTSM() *hTSM {
	t := &hTSM{fail: vp.Choose("tsmFails", 2) == 1}
	for i := range t.regs {
		t.regs[i] = vp.Bytes("reg"+string(rune('0'+i)), 48)
	}
	return t
}

// H17a: ExtendDigestClient.
func H17a_ExtendDigest() {
	t := newTSM()
	before := t.regs
	idx := vp.Int("index")
	digest := vp.Bytes("digest", vp.IntRange("digest_len", 0, 64))
	err := ExtendDigestClient(t, idx, digest)
	valid := vp.And(idx >= 0, idx <= 3, len(digest) == 48)
	vp.Reach("valid-request", vp.And(valid, err == nil))
	vp.Reach("invalid-request", !valid)
	vp.Assert("no-direct-tsm-operation", t.ops == 0)
	vp.Assert("invalid-request-writes-nothing", vp.Implies(!valid, vp.And(err != nil, t.nExtend == 0)))
	vp.Assert("valid-request-extends-exactly-once", vp.Implies(valid, t.nExtend == 1))
	if t.nExtend == 1 {
		vp.Assert("extends-the-requested-register", t.extIndex == idx)
		vp.Assert("extends-with-exactly-the-given-digest", vp.BytesEq(t.extDig, digest))
		vp.Assert("error-iff-tsm-fails", (err != nil) == t.fail)
	}
	// one step from an arbitrary register state: R'[idx] = H(R[idx] || d), all others unchanged
	if err == nil {
		for i := 0; i < 4; i++ {
			if i == idx {
				vp.Assert("register-extended", vp.BytesEq(t.regs[i], vp.UFBytes("SHA384_extend", 48, before[i], digest)))
			} else {
				vp.Assert("other-registers-unchanged", vp.BytesEq(t.regs[i], before[i]))
			}
		}
	}
}

// H17b: ExtendEventLogClient.
func H17b_ExtendEventLog() {
	t := newTSM()
	idx := vp.Int("index")
	algo := crypto.Hash(vp.U64("hashAlgo"))
	log := vp.Bytes("eventlog", vp.IntRange("log_len", 0, 128))
	err := ExtendEventLogClient(t, idx, algo, log)
	valid := vp.And(idx >= 0, idx <= 3, algo == crypto.SHA384, len(log) > 0)
	vp.Reach("valid-request", vp.And(valid, err == nil))
	vp.Reach("invalid-request", !valid)
	vp.Assert("no-direct-tsm-operation", t.ops == 0)
	vp.Assert("invalid-request-writes-nothing", vp.Implies(!valid, vp.And(err != nil, t.nExtend == 0)))
	vp.Assert("valid-request-extends-exactly-once", vp.Implies(valid, t.nExtend == 1))
	if t.nExtend == 1 {
		vp.Assert("extends-the-requested-register", t.extIndex == idx)
		vp.Assert("extends-with-sha384-of-the-event-log", vp.BytesEq(t.extDig, sha384(log)))
		vp.Assert("error-iff-tsm-fails", (err != nil) == t.fail)
	}
}

// H17c: histories. Two requests in a row through one TSM: whatever the first one was (accepted or
// rejected at any stage), the second is handled as if it came first: an accepted event-log request
// extends exactly SHA-384 of ITS log, an accepted digest request exactly its digest.
func H17c_TwoRequests() {
	t := newTSM()
	// first request: an event log or a digest, any index
	log1 := vp.Bytes("eventlog1", vp.IntRange("log1_len", 0, 64))
	idx1 := vp.Int("index1")
	if vp.Choose("firstKind", 2) == 0 {
		_ = ExtendEventLogClient(t, idx1, crypto.Hash(vp.U64("hashAlgo1")), log1)
	} else {
		_ = ExtendDigestClient(t, idx1, vp.Bytes("digest1", vp.IntRange("digest1_len", 0, 64)))
	}
	n1 := t.nExtend
	// second request: a valid event-log request
	log2 := vp.Bytes("eventlog2", vp.IntRange("log2_len", 1, 64))
	idx2 := vp.IntRange("index2", 0, 3)
	err := ExtendEventLogClient(t, idx2, crypto.SHA384, log2)
	vp.Reach("second-accepted", err == nil)
	vp.Assert("second-request-extends-exactly-once", t.nExtend == n1+1)
	if t.nExtend == n1+1 {
		vp.Assert("second-extends-the-requested-register", t.extIndex == idx2)
		vp.Assert("second-extends-with-sha384-of-its-own-log", vp.BytesEq(t.extDig, sha384(log2)))
	}
}
