package validate

import (
	pb "github.com/google/go-tdx-guest/proto/tdx"
	vp "github.com/google/go-tdx-guest/zzvp"
	"github.com/google/go-tdx-guest/zzvp/q"
)

//vp:merge github.com/google/go-tdx-guest/validate.byteCheck
//vp:merge github.com/google/go-tdx-guest/validate.byteCheckRtmr
//vp:merge github.com/google/go-tdx-guest/validate.byteCheckAny
//vp:merge github.com/google/go-tdx-guest/validate.exactByteMatch
//vp:merge github.com/google/go-tdx-guest/validate.minVersionCheck
//vp:merge github.com/google/go-tdx-guest/validate.isSvnHigherOrEqual
//vp:merge github.com/google/go-tdx-guest/validate.validateXfam
//vp:merge github.com/google/go-tdx-guest/validate.validateTdAttributes
//vp:merge github.com/google/go-tdx-guest/validate.lengthCheck
//vp:merge github.com/google/go-tdx-guest/validate.lengthCheckMany
//vp:merge github.com/google/go-tdx-guest/validate.checkOptionsLengths

// optBytes: an expectation of symbolic length 0..size+2 (length 0 = unset).
func optBytes(name string, size int) []byte {
	n := vp.IntRange(name+"_len", 0, size+2)
	return vp.Bytes(name, n)
}

// specExact: the statement's exact-match clause for one expectation.
// unset/empty -> holds; otherwise it must have the field's size and content.
func specExact(opt, field []byte) bool {
	return vp.Or(len(opt) == 0, vp.BytesEq(opt, field))
}

func le16(b []byte) uint16 { return uint16(b[0]) | uint16(b[1])<<8 }

func le64(b []byte) uint64 {
	var v uint64
	for i := 0; i < 8; i++ {
		v |= uint64(b[i]) << (8 * uint(i))
	}
	return v
}

type h08in struct {
	quote *pb.QuoteV4
	opts  *Options
	nR    int
	nA    int
}

func h08Inputs(minTeeNil bool) h08in {
	quote := q.Valid("q_", q.Shape{AuthLen: 32, Chain: vp.Bytes("chain", 8)})
	nR := vp.Choose("nRtmrs", 6)
	nA := vp.Choose("nAnyMrTd", 4)
	o := &Options{}
	o.HeaderOptions.MinimumQeSvn = vp.U16("minQeSvn")
	o.HeaderOptions.MinimumPceSvn = vp.U16("minPceSvn")
	o.HeaderOptions.QeVendorID = optBytes("o_qevendor", 16)
	b := &o.TdQuoteBodyOptions
	if !minTeeNil {
		b.MinimumTeeTcbSvn = optBytes("o_minteetcbsvn", 16)
	}
	b.MrSeam = optBytes("o_mrseam", 48)
	b.TdAttributes = optBytes("o_tdattr", 8)
	b.Xfam = optBytes("o_xfam", 8)
	b.MrTd = optBytes("o_mrtd", 48)
	b.MrConfigID = optBytes("o_mrconfigid", 48)
	b.MrOwner = optBytes("o_mrowner", 48)
	b.MrOwnerConfig = optBytes("o_mrownerconfig", 48)
	b.ReportData = optBytes("o_reportdata", 64)
	for i := 0; i < nR; i++ {
		b.Rtmrs = append(b.Rtmrs, optBytes("o_rtmr"+string(rune('0'+i)), 48))
	}
	for i := 0; i < nA; i++ {
		// the statement speaks about sets of non-empty values
		e := optBytes("o_anymrtd"+string(rune('0'+i)), 48)
		vp.Assume(len(e) > 0)
		b.AnyMrTd = append(b.AnyMrTd, e)
	}
	return h08in{quote, o, nR, nA}
}

// spec08 is the verdict the statement prescribes, minimum TEE TCB SVN aside.
func spec08(in h08in) bool {
	quote, o := in.quote, in.opts
	h, body, b := quote.Header, quote.TdQuoteBody, &o.TdQuoteBodyOptions
	ok := vp.And(
		specExact(o.HeaderOptions.QeVendorID, h.QeVendorId),
		specExact(b.MrSeam, body.MrSeam),
		specExact(b.TdAttributes, body.TdAttributes),
		specExact(b.Xfam, body.Xfam),
		specExact(b.MrTd, body.MrTd),
		specExact(b.MrConfigID, body.MrConfigId),
		specExact(b.MrOwner, body.MrOwner),
		specExact(b.MrOwnerConfig, body.MrOwnerConfig),
		specExact(b.ReportData, body.ReportData),
	)
	// RTMRs: none given, or exactly four, each unset or equal
	if in.nR != 0 {
		if in.nR != 4 {
			ok = false
		} else {
			for i := 0; i < 4; i++ {
				ok = vp.And(ok, specExact(b.Rtmrs[i], body.Rtmrs[i]))
			}
		}
	}
	// allowed MR_TD set (non-empty values): membership
	if in.nA != 0 {
		member := false
		for i := 0; i < in.nA; i++ {
			member = vp.Or(member, vp.BytesEq(b.AnyMrTd[i], body.MrTd))
		}
		ok = vp.And(ok, member)
	}
	// minimum SVNs (QE SVN and PCE SVN are little-endian 16-bit)
	ok = vp.And(ok, le16(h.QeSvn) >= o.HeaderOptions.MinimumQeSvn, le16(h.PceSvn) >= o.HeaderOptions.MinimumPceSvn)
	// fixed bits. XFAM: bits 0,1 must be set; only bits of 0x6DBE7 may be set.
	x := le64(body.Xfam)
	ok = vp.And(ok, x&0x3 == 0x3, x&^uint64(0x6DBE7) == 0)
	// TD_ATTRIBUTES: only DEBUG(0), SEPT_VE_DISABLE(28), PKS(30), PERFMON(63) may be set.
	a := le64(body.TdAttributes)
	allowed := uint64(1) | uint64(1)<<28 | uint64(1)<<30 | uint64(1)<<63
	ok = vp.And(ok, a&^allowed == 0)
	return ok
}

// H08a: no minimum TEE TCB SVN configured.
func H08a_PolicyExact_NoMinTee() {
	in := h08Inputs(true)
	err := TdxQuote(in.quote, in.opts)
	want := spec08(in)
	vp.Reach("accept", err == nil)
	vp.Reach("reject", err != nil)
	vp.Assert("verdict-equals-statement", (err == nil) == want)
}

// H08b: a minimum TEE TCB SVN of any length is configured. For the correct
// length (16) the verdict is the statement's; for other lengths the statement
// only demands "success or an error, never a crash" (implicit obligations).
func H08b_PolicyExact_MinTee() {
	in := h08Inputs(false)
	m := in.opts.TdQuoteBodyOptions.MinimumTeeTcbSvn
	err := TdxQuote(in.quote, in.opts)
	want := spec08(in)
	geq := true
	if len(m) == 16 {
		for i := 0; i < 16; i++ {
			geq = vp.And(geq, in.quote.TdQuoteBody.TeeTcbSvn[i] >= m[i])
		}
		vp.Reach("accept", err == nil)
		vp.Reach("reject-by-svn", vp.And(want, !geq))
		vp.Assert("verdict-equals-statement", (err == nil) == vp.And(want, geq))
	} else {
		// never accepts a quote that misses another configured expectation
		vp.Assert("no-accept-when-other-expectation-missed", vp.Implies(err == nil, want))
	}
}

// H08c: RawTdxQuote is TdxQuote of the parsed bytes (composition; the parser is C09's subject).
func H08c_NilOptions() {
	quote := q.Valid("q_", q.Shape{AuthLen: 0, Chain: vp.Bytes("chain", 1)})
	vp.Assert("nil-options-rejected", TdxQuote(quote, nil) != nil)
	vp.Assert("unsupported-type-rejected", TdxQuote(42, &Options{}) != nil)
	var nilq *pb.QuoteV4
	vp.Assert("nil-quote-rejected", TdxQuote(nilq, &Options{}) != nil)
}
