package verify

import (
	"crypto/x509"
	"encoding/pem"
	"errors"

	ccpb "github.com/google/go-tdx-guest/proto/checkconfig"
	vp "github.com/google/go-tdx-guest/zzvp"
)

// h02: chain blob with nBlocks PEM blocks of symbolic type and a symbolic tail;
// nTrusted certificates in the caller's pool (0: nil pool -> embedded root).
func h02(nBlocks, nTrusted int) {
	tail := vp.Bytes("tail", vp.IntRange("tail_len", 0, 2))
	w := mkPKI(nTrusted, nil)
	certs := []*x509.Certificate{w.leaf, w.inter, w.root, mkCert("fourth"), mkCert("fifth")}
	names := []string{"leaf", "inter", "root", "fourth", "fifth"}
	var blocks []*pem.Block
	types := make([]string, nBlocks)
	for i := 0; i < nBlocks; i++ {
		types[i] = vp.Atom("blocktype" + string(rune('0'+i)))
		blocks = append(blocks, &pem.Block{Type: types[i], Bytes: derOf(names[i]+"2", certs[i], false)})
	}
	w.chainBytes = pemChain("chain2", blocks, tail)
	quote := mkQuote(w, 0)
	now := symTimeSet("t")
	err := TdxQuote(quote, &Options{TrustedRoots: w.pool, Now: now})
	vp.Reach("reject", err != nil)
	if nBlocks == 3 {
		vp.Reach("accept", err == nil)
		vp.Reach("accept-with-trailing-nul", vp.And(err == nil, len(tail) == 1))
	}
	if nBlocks != 3 {
		// fewer than three blocks, or a fourth block after the root: never accepted
		vp.Assert("exactly-three-pem-blocks", err != nil)
		return
	}
	vp.Assert("blocks-are-certificates", vp.Implies(err == nil, vp.And(types[0] == "CERTIFICATE", types[1] == "CERTIFICATE", types[2] == "CERTIFICATE")))
	tailOK := vp.Or(len(tail) == 0, vp.BytesEq(tail, []byte{0}))
	vp.Assert("only-an-optional-trailing-nul", vp.Implies(err == nil, tailOK))
	vp.Assert("leaf-is-a-pck-certificate", vp.Implies(err == nil, wellFormedAs(w.leaf, "Intel SGX PCK Certificate")))
	vp.Assert("intermediate-is-the-pck-platform-ca", vp.Implies(err == nil, wellFormedAs(w.inter, "Intel SGX PCK Platform CA")))
	vp.Assert("root-is-the-sgx-root-ca", vp.Implies(err == nil, wellFormedAs(w.root, "Intel SGX Root CA")))
	vp.Assert("names-chain", vp.Implies(err == nil, vp.And(
		w.root.Issuer.SerialNumber == w.root.Subject.SerialNumber,
		w.inter.Issuer.SerialNumber == w.root.Subject.SerialNumber,
		w.leaf.Issuer.SerialNumber == w.inter.Subject.SerialNumber)))
	vp.Assert("signatures-chain", vp.Implies(err == nil, vp.And(
		vp.UFBool("SigBy", certID(w.root), keyID(w.root)),
		vp.UFBool("SigBy", certID(w.inter), keyID(w.root)),
		vp.UFBool("SigBy", certID(w.leaf), keyID(w.inter)))))
	// the decisive clause: path validation against the CONFIGURED roots with the quote's intermediate
	vp.Assert("leaf-chains-to-a-configured-root", vp.Implies(err == nil,
		verifyModel(w.leaf, w.configuredRoots(), []*x509.Certificate{w.inter}, now.PckCertChain)))
	// a quote that is self-consistent under its own root only is rejected
	selfOnly := true
	for _, r := range w.configuredRoots() {
		selfOnly = vp.And(selfOnly, keyID(r) != keyID(w.root), certID(r) != certID(w.leaf), keyID(r) != keyID(w.inter),
			!vp.UFBool("SigBy", certID(w.inter), keyID(r)), !vp.UFBool("SigBy", certID(w.leaf), keyID(r)))
	}
	vp.Reach("foreign-pki", selfOnly)
	vp.Assert("foreign-root-rejected", vp.Implies(selfOnly, err != nil))
}

func H02a_3blocks_embedded() { h02(3, 0) }
func H02b_3blocks_pool1()    { h02(3, 1) }
func H02c_3blocks_pool2()    { h02(3, 2) }
func H02d_2blocks()          { h02(2, 0) }

// H02g: a non-nil pool without certificates trusts nothing (in particular not the embedded root).
func H02g_EmptyPoolTrustsNothing() {
	w := mkPKI(-1, nil)
	quote := mkQuote(w, 0)
	err := TdxQuote(quote, &Options{TrustedRoots: w.pool, Now: symTimeSet("t")})
	vp.Assert("empty-pool-trusts-nothing", err != nil)
}
func H02e_4blocks()          { h02(4, 1) }

// H02h: histories. After a quote was accepted under one pool, the same quote presented with
// ANOTHER pool - through fresh options, or through the SAME options value whose TrustedRoots the
// caller replaced - is judged against that other pool.
func H02h_SecondVerificationOtherRoots() {
	w := mkPKI(1, nil)
	quote := mkQuote(w, 0)
	now := symTimeSet("t")
	first := &Options{TrustedRoots: w.pool, Now: now}
	if TdxQuote(quote, first) != nil {
		return
	}
	vp.Reach("first-accepted", true)
	other := mkCert("othertrusted")
	pool2 := m_NewCertPool()
	m_AddCert(pool2, other)
	now2 := symTimeSet("t2")
	second := &Options{TrustedRoots: pool2, Now: now2}
	if vp.Choose("sameOptionsValue", 2) == 1 {
		first.TrustedRoots, first.Now = pool2, now2
		second = first
	}
	err := TdxQuote(quote, second)
	vp.Reach("second-rejected", err != nil)
	vp.Assert("second-verification-is-anchored-in-its-own-pool", vp.Implies(err == nil,
		verifyModel(w.leaf, []*x509.Certificate{other}, []*x509.Certificate{w.inter}, now2.PckCertChain)))
	// and with no pool: the embedded root
	err3 := TdxQuote(quote, &Options{Now: now2})
	vp.Assert("third-verification-is-anchored-in-the-embedded-root", vp.Implies(err3 == nil,
		verifyModel(w.leaf, []*x509.Certificate{w.embedded}, []*x509.Certificate{w.inter}, now2.PckCertChain)))
}

// ---- root-of-trust configuration ----

var files map[string][]byte
var fileMissing map[string]bool

//vp:model os.ReadFile
func m_ReadFile(name string) ([]byte, error) {
	if fileMissing[name] {
		return nil, errors.New("open: no such file")
	}
	b, ok := files[name]
	if !ok {
		return nil, errors.New("open: no such file")
	}
	return b, nil
}

// inlineBundle: an inline PEM bundle as a concrete string (possibly blank) that carries its certificates.
func inlineBundle(p string, n int, blank int) (string, []*x509.Certificate) {
	text := []string{"-----BEGIN CERTIFICATE-----" + p, "", "  \n"}[blank]
	var cs []*x509.Certificate
	if blank == 0 {
		for i := 0; i < n; i++ {
			cs = append(cs, mkCert(p+"_c"+string(rune('0'+i))))
		}
	}
	s := text + ""
	vp.GhostSet(s, "bundle", &bundleGhost{certs: cs})
	return s, cs
}

func bundle(p string, n int) ([]byte, []*x509.Certificate) {
	b := vp.Bytes(p+"_bundle", 6)
	var cs []*x509.Certificate
	for i := 0; i < n; i++ {
		cs = append(cs, mkCert(p+"_c"+string(rune('0'+i))))
	}
	vp.GhostSet(b, "bundle", &bundleGhost{certs: cs})
	return b, cs
}

// H02f: a root-of-trust configuration trusts exactly the certificates it lists.
func H02f_RootOfTrustToOptions() {
	nPaths := vp.Choose("nPaths", 3)
	nInline := vp.Choose("nInline", 3)
	files = map[string][]byte{}
	fileMissing = map[string]bool{}
	rot := &ccpb.RootOfTrust{CheckCrl: vp.Bool("checkCrl"), GetCollateral: vp.Bool("getCollateral")}
	var listed []*x509.Certificate
	anyEmpty, anyMissing := false, false
	pathNames := []string{"/bundles/a.pem", "/bundles/b.pem"}
	for i := 0; i < nPaths; i++ {
		k := vp.Choose("pathCerts"+string(rune('0'+i)), 3)
		b, cs := bundle("file"+string(rune('0'+i)), k)
		files[pathNames[i]] = b
		if vp.Choose("missing"+string(rune('0'+i)), 2) == 1 {
			fileMissing[pathNames[i]] = true
			anyMissing = true
		}
		if k == 0 {
			anyEmpty = true
		}
		if !anyMissing && !anyEmpty {
			listed = append(listed, cs...)
		}
		rot.CabundlePaths = append(rot.CabundlePaths, pathNames[i])
	}
	for i := 0; i < nInline; i++ {
		k := vp.Choose("inlineCerts"+string(rune('0'+i)), 3)
		blank := vp.Choose("inlineBlank"+string(rune('0'+i)), 3) // real PEM text, empty string, white space only
		s, cs := inlineBundle("inline"+string(rune('0'+i)), k, blank)
		if len(cs) == 0 {
			anyEmpty = true
		}
		listed = append(listed, cs...)
		rot.Cabundles = append(rot.Cabundles, s)
	}
	opts, err := RootOfTrustToOptions(rot)
	bad := anyMissing || anyEmpty
	vp.Assert("error-iff-a-bundle-is-unreadable-or-empty", (err != nil) == bad)
	if err != nil {
		return
	}
	vp.Assert("flags-copied", vp.And(opts.CheckRevocations == rot.CheckCrl, opts.GetCollateral == rot.GetCollateral))
	if nPaths == 0 && nInline == 0 {
		vp.Assert("nil-pool-when-nothing-listed", opts.TrustedRoots == nil)
		return
	}
	got := poolCerts(opts.TrustedRoots)
	vp.Assert("pool-size", len(got) == len(listed))
	for i := 0; i < len(got) && i < len(listed); i++ {
		vp.Assert("pool-holds-exactly-the-listed-certificates", got[i] == listed[i])
	}
}

// thorough tier: longer chains of blocks and larger pools
func T02i_5blocks_pool2() { h02(5, 2) }
func T02j_3blocks_pool3() { h02(3, 3) }
