package verify

import (
	"crypto/x509"
	"encoding/json"

	pb "github.com/google/go-tdx-guest/proto/tdx"
	vp "github.com/google/go-tdx-guest/zzvp"
)

// docAuthentic: the response's signed member verifies under the signature field with a
// certificate named 'Intel SGX TCB Signing' issued by a self-signed 'Intel SGX Root CA'
// certificate that chains to the configured roots at time t.
func docAuthentic(w *collateralWorld, d *doc, tNow interface{ Unix() int64 }) (signerOK, rootOK, chainOK, sigOK bool) {
	s, r := d.chain.signer, d.chain.root
	rootOK = vp.And(wellFormedAs(r, "Intel SGX Root CA"), r.Issuer.SerialNumber == r.Subject.SerialNumber, vp.UFBool("SigBy", certID(r), keyID(r)))
	signerOK = vp.And(wellFormedAs(s, "Intel SGX TCB Signing"), s.Issuer.SerialNumber == r.Subject.SerialNumber, vp.UFBool("SigBy", certID(s), keyID(r)))
	sigOK = len(d.sig) == 64
	if len(d.sig) == 64 {
		sigOK = vp.UFBool("CertSigDoc", keyID(s), int(x509.ECDSAWithSHA256), d.memberID, d.sig[0:32], d.sig[32:64])
	}
	return
}

func h03(nTrusted, k, m int) { h03o(nTrusted, k, m, false) }

func h03o(nTrusted, k, m int, omissions bool) { h03r(nTrusted, k, m, omissions, false) }

// rev: revocation checking on as well (CRLs present in the world): the collateral documents are
// authenticated by the same code, which then goes on to the CRL checks.
func h03r(nTrusted, k, m int, omissions, rev bool) {
	nDist := 0
	if rev {
		nDist = 1
	}
	w := mkCollateralWorldOpt(nTrusted, k, m, 1, nDist, 0, omissions)
	quote := mkQuote(w.pki, 32)
	now := symTimeSet("t")
	opts := &Options{GetCollateral: true, CheckRevocations: rev, Getter: w.getter, TrustedRoots: w.pool, Now: now}
	err := TdxQuote(quote, opts)
	if k > 0 {
		vp.Reach("accept", err == nil)
	}
	vp.Reach("reject", err != nil)
	ok := err == nil

	ts, tr, _, tsig := docAuthentic(w, w.tcbDoc, now.TcbInfo)
	vp.Assert("tcbinfo-root-is-self-signed-sgx-root-ca", vp.Implies(ok, tr))
	vp.Assert("tcbinfo-signer-is-tcb-signing-issued-by-that-root", vp.Implies(ok, ts))
	vp.Assert("tcbinfo-signer-chains-to-configured-roots", vp.Implies(ok, verifyModel(w.tcbDoc.chain.signer, w.configuredRoots(), nil, now.TcbInfo)))
	vp.Assert("tcbinfo-member-signed-by-signer", vp.Implies(ok, tsig))
	qs, qr, _, qsig := docAuthentic(w, w.qeDoc, now.QeIdentity)
	vp.Assert("qeidentity-root-is-self-signed-sgx-root-ca", vp.Implies(ok, qr))
	vp.Assert("qeidentity-signer-is-tcb-signing-issued-by-that-root", vp.Implies(ok, qs))
	vp.Assert("qeidentity-signer-chains-to-configured-roots", vp.Implies(ok, verifyModel(w.qeDoc.chain.signer, w.configuredRoots(), nil, now.QeIdentity)))
	vp.Assert("qeidentity-member-signed-by-signer", vp.Implies(ok, qsig))

	// the signed documents carry the expected id / version and a non-empty level list
	vp.Assert("signed-tcbinfo-is-tdx-v3", vp.Implies(ok, vp.And(w.signedTcb.ID == "TDX", w.signedTcb.Version == 3)))
	vp.Assert("signed-qeidentity-is-td-qe-v2", vp.Implies(ok, vp.And(w.signedQe.ID == "TD_QE", w.signedQe.Version == 2)))
	if k == 0 {
		vp.Assert("empty-level-list-rejected", err != nil)
		return
	}
	// the values that drive the verdict are those of the signed members
	w4 := world04{body: quote.TdQuoteBody, ext: w.exts, info: *w.signedTcb, k: k, m: len(w.signedTcb.TdxModuleIdentities), l: 1}
	accept4, _, _, _ := w4.spec04(16)
	vp.Assert("verdict-follows-the-signed-tcbinfo", vp.Implies(ok, accept4))
	report := quote.SignedData.CertificationData.QeReportCertificationData.QeReport
	vp.Assert("verdict-follows-the-signed-qeidentity", vp.Implies(ok, spec07(report, w.signedQe)))
	_ = pb.QuoteV4{}
}

func H03a_embedded_k1()  { h03(0, 1, 0) }
func H03b_pool1_k1_m1()  { h03(1, 1, 1) }
func H03c_k0()           { h03(0, 0, 0) }

// H03h: the same with revocation checking on.
func H03h_WithRevocationChecking() { h03r(0, 1, 0, false, true) }

// H03f: signed documents that do not mention every member (absent members are zero values, never left-overs).
func H03f_SignedMemberOmitsFields() { h03o(0, 1, 1, true) }
func T03d_pool2_k2_m1()  { h03(2, 2, 1) }

// H03e: malformed issuer-chain headers and bodies are rejected.
func H03e_MalformedResponses() {
	w := mkCollateralWorld(0, 1, 0, 1, 0, 0)
	quote := mkQuote(w.pki, 0)
	d := w.tcbDoc
	if vp.Choose("which_doc", 2) == 1 {
		d = w.qeDoc
	}
	key := ""
	for k := range d.resp.header {
		key = k
	}
	switch vp.Choose("defect", 8) {
	case 0: // header missing
		d.resp.header = map[string][]string{}
	case 1: // header present with no value
		d.resp.header = hdr(key)
	case 2: // two values
		d.resp.header = hdr(key, d.chain.header, d.chain.header)
	case 3: // empty value
		d.resp.header = hdr(key, "")
	case 4: // value does not unescape
		bad := vp.StrN("bad_escape", 2)
		d.resp.header = hdr(key, bad)
	case 5: // body is not JSON
		d.resp.body = vp.Bytes("garbage_body", 5)
	case 6: // empty body
		d.resp.body = []byte{}
	case 7: // nil header map
		d.resp.header = nil
	}
	err := TdxQuote(quote, &Options{GetCollateral: true, Getter: w.getter, Now: symTimeSet("t")})
	vp.Assert("malformed-response-rejected", err != nil)
}

// H03g: histories. After a good response was processed, a later response that lacks the signed
// member is rejected (nothing from the earlier response stands in for it).
func H03g_MemberlessResponseAfterGoodOne() {
	w := mkCollateralWorld(0, 1, 0, 1, 0, 0)
	quote := mkQuote(w.pki, 0)
	now := symTimeSet("t")
	if TdxQuote(quote, &Options{GetCollateral: true, Getter: w.getter, Now: now}) != nil {
		return
	}
	vp.Reach("first-accepted", true)
	// the endpoint now serves bodies without the signed member
	d := w.tcbDoc
	if vp.Choose("which_doc", 2) == 1 {
		d = w.qeDoc
	}
	g := vp.GhostGet(d.resp.body, "json").(*jsonGhost)
	g.members = map[string]json.RawMessage{"signature": []byte{1}}
	err := TdxQuote(quote, &Options{GetCollateral: true, Getter: w.getter, Now: now})
	vp.Assert("response-without-signed-member-rejected", err != nil)
}

// thorough tier: two levels and a module identity, with revocation checking on
func T03i_k2_m1_WithRevocationChecking() { h03r(0, 2, 1, false, true) }
