package verify

import (
	"github.com/google/go-tdx-guest/abi"
	pb "github.com/google/go-tdx-guest/proto/tdx"
	vp "github.com/google/go-tdx-guest/zzvp"
	"github.com/google/go-tdx-guest/zzvp/q"
)

// White-box file: calls unexported helpers directly; left out when they are renamed or re-shaped
// (H16b-f cover the same code through TdxQuote).

// H16g: the hash binding check alone, on a parsed quote: runs natively too (snapshot to capacity).
func H16g_HashBindingDoesNotWrite() {
	src := q.Valid("src_", q.Shape{AuthLen: 32, Chain: vp.Bytes("chainbytes", 20)})
	src.SignedDataSize = uint32(590 + 32 + 20)
	src.SignedData.CertificationData.Size = uint32(590 + 32 + 20 - 134)
	raw, err := abi.QuoteToAbiBytes(src)
	vp.Assume(err == nil)
	res, err := abi.QuoteToProto(raw)
	vp.Assume(err == nil)
	quote := res.(*pb.QuoteV4)
	vp.Freeze(quote, raw)
	_ = verifyHash256(quote)
	_, _ = getHeaderAndTdQuoteBodyInAbiBytes(quote)
	_ = applyMask(quote.TdQuoteBody.SeamAttributes, quote.TdQuoteBody.TdAttributes)
}
