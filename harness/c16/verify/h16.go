package verify

import (
	"github.com/google/go-tdx-guest/abi"
	pb "github.com/google/go-tdx-guest/proto/tdx"
	vp "github.com/google/go-tdx-guest/zzvp"
	"github.com/google/go-tdx-guest/zzvp/q"
)

// parsedQuote: a quote as abi.QuoteToProto hands it out: its fields are views into a few
// buffers with capacity far beyond their length. The PEM structure of the chain is
// re-attached to the parsed chain bytes (parsing copied them).
func parsedQuote(w *pki, authLen int) (*pb.QuoteV4, []byte) {
	src := q.Valid("src_", q.Shape{AuthLen: authLen, Chain: vp.Bytes("chainbytes", 20)})
	src.SignedDataSize = uint32(590 + authLen + 20)
	src.SignedData.CertificationData.Size = uint32(590 + authLen + 20 - 134)
	raw, err := abi.QuoteToAbiBytes(src)
	vp.Assume(err == nil)
	res, err := abi.QuoteToProto(raw)
	vp.Assume(err == nil)
	quote := res.(*pb.QuoteV4)
	chain := quote.SignedData.CertificationData.QeReportCertificationData.PckCertificateChainData.PckCertChain
	vp.GhostSet(chain, "pem", vp.GhostGet(w.chainBytes, "pem"))
	return quote, raw
}

func runAll(w *collateralWorld, quote *pb.QuoteV4, level int) {
	opts := &Options{GetCollateral: level >= 1, CheckRevocations: level == 2, Getter: w.getter, Now: symTimeSet("t")}
	vp.FreezeGlobals()
	err := TdxQuote(quote, opts)
	vp.Reach("verification-accepts", err == nil)
	vp.Reach("verification-rejects", err != nil)
	_, _ = ExtractChainFromQuote(quote)
	out, err2 := abi.QuoteToAbiBytes(quote)
	vp.Assert("serialises", err2 == nil)
	vp.Assert("serialisation-is-fresh-memory", vp.Disjoint(out, quote))
}

// H16a: parsing copies: the result shares no memory with the input; input is not written.
func H16a_ParseCopies() {
	w := mkPKI(0, nil)
	src := q.Valid("src_", q.Shape{AuthLen: 7, Chain: w.chainBytes, Extra: vp.Bytes("padding", 39)})
	src.SignedDataSize = uint32(590 + 7 + len(w.chainBytes))
	src.SignedData.CertificationData.Size = uint32(590 + 7 + len(w.chainBytes) - 134)
	raw, err := abi.QuoteToAbiBytes(src)
	vp.Assume(err == nil)
	vp.Freeze(raw, src)
	res, err := abi.QuoteToProto(raw)
	vp.Assert("parses", err == nil)
	vp.Assert("parsed-quote-shares-no-memory-with-the-input", vp.Disjoint(res, raw))
}

// H16b: a quote parsed from bytes (fields with spare capacity), verified at every level, frozen to capacity.
func h16b(level int) {
	nDist := 0
	if level == 2 {
		nDist = 1
	}
	w := mkCollateralWorld(0, 1, 0, 1, nDist, 0)
	quote, raw := parsedQuote(w.pki, 32)
	vp.Freeze(quote, raw)
	runAll(w, quote, level)
}

func H16b_ParsedQuote_Base()       { h16b(0) }
func H16c_ParsedQuote_Collateral() { h16b(1) }
func T16d_ParsedQuote_Revocation() { h16b(2) }

// H16e: a quote built field by field with spare capacity behind every byte field (as a protobuf decoder may hand out).
func H16e_SpareCapacity() {
	w := mkCollateralWorld(0, 1, 0, 1, 0, 0)
	quote := q.Valid("q_", q.Shape{AuthLen: 16, Chain: w.chainBytes, SpareCap: 48})
	vp.Freeze(quote)
	runAll(w, quote, vp.Choose("level", 2))
}

// H16f: cap == len everywhere.
func H16f_ExactCapacity() {
	w := mkCollateralWorld(0, 1, 0, 1, 0, 0)
	quote := q.Valid("q_", q.Shape{AuthLen: 16, Chain: w.chainBytes})
	vp.Freeze(quote)
	runAll(w, quote, 1)
}
