package verify

import vp "github.com/google/go-tdx-guest/zzvp"

// H16g runs without crypto stubs except SHA-256 (whose result does not matter for the write set).
var _ = vp.Note
