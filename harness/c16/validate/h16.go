package validate

import (
	vp "github.com/google/go-tdx-guest/zzvp"
	"github.com/google/go-tdx-guest/zzvp/q"
)

//vp:merge github.com/google/go-tdx-guest/validate.byteCheck
//vp:merge github.com/google/go-tdx-guest/validate.byteCheckRtmr
//vp:merge github.com/google/go-tdx-guest/validate.byteCheckAny
//vp:merge github.com/google/go-tdx-guest/validate.isSvnHigherOrEqual

// H16v: validation writes neither to the quote nor to the option byte strings (to capacity).
func H16v_ValidateDoesNotWrite() {
	quote := q.Valid("q_", q.Shape{AuthLen: 0, Chain: vp.Bytes("chain", 4), SpareCap: 16})
	o := &Options{}
	o.HeaderOptions.QeVendorID = vp.BytesCap("o_qevendor", 16, 32)
	b := &o.TdQuoteBodyOptions
	b.MinimumTeeTcbSvn = vp.BytesCap("o_mintee", 16, 32)
	b.MrSeam, b.MrTd = vp.BytesCap("o_mrseam", 48, 64), vp.BytesCap("o_mrtd", 48, 64)
	b.TdAttributes, b.Xfam = vp.BytesCap("o_tdattr", 8, 16), vp.BytesCap("o_xfam", 8, 16)
	b.MrConfigID, b.MrOwner, b.MrOwnerConfig = vp.BytesCap("o_mrconfigid", 48, 64), vp.BytesCap("o_mrowner", 48, 64), vp.BytesCap("o_mrownerconfig", 48, 64)
	b.ReportData = vp.BytesCap("o_reportdata", 64, 80)
	for i := 0; i < 4; i++ {
		b.Rtmrs = append(b.Rtmrs, vp.BytesCap("o_rtmr"+string(rune('0'+i)), 48, 64))
	}
	b.AnyMrTd = [][]byte{vp.BytesCap("o_any0", 48, 64), vp.BytesCap("o_any1", 48, 64)}
	vp.Freeze(quote, o)
	vp.FreezeGlobals()
	err := TdxQuote(quote, o)
	vp.Reach("accept", err == nil)
	vp.Reach("reject", err != nil)
}
