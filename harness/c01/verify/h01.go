package verify

import (
	"crypto/sha256"
	"crypto/x509"

	pb "github.com/google/go-tdx-guest/proto/tdx"
	vp "github.com/google/go-tdx-guest/zzvp"
	"github.com/google/go-tdx-guest/zzvp/q"
)

// The harness's own serialisation of header || TD body (bytes 0-631 of the
// wire format) and of the QE report (384 bytes), from Intel's layout.
func ownHeaderBody(quote *pb.QuoteV4) []byte {
	h, b := quote.Header, quote.TdQuoteBody
	out := make([]byte, 0, 632)
	out = append(out, byte(h.Version), byte(h.Version>>8), byte(h.AttestationKeyType), byte(h.AttestationKeyType>>8))
	out = append(out, byte(h.TeeType), byte(h.TeeType>>8), byte(h.TeeType>>16), byte(h.TeeType>>24))
	out = append(out, h.PceSvn...)
	out = append(out, h.QeSvn...)
	out = append(out, h.QeVendorId...)
	out = append(out, h.UserData...)
	out = append(out, b.TeeTcbSvn...)
	out = append(out, b.MrSeam...)
	out = append(out, b.MrSignerSeam...)
	out = append(out, b.SeamAttributes...)
	out = append(out, b.TdAttributes...)
	out = append(out, b.Xfam...)
	out = append(out, b.MrTd...)
	out = append(out, b.MrConfigId...)
	out = append(out, b.MrOwner...)
	out = append(out, b.MrOwnerConfig...)
	for i := 0; i < 4; i++ {
		out = append(out, b.Rtmrs[i]...)
	}
	out = append(out, b.ReportData...)
	return out
}

func ownQeReport(r *pb.EnclaveReport) []byte {
	out := make([]byte, 0, 384)
	out = append(out, r.CpuSvn...)
	out = append(out, byte(r.MiscSelect), byte(r.MiscSelect>>8), byte(r.MiscSelect>>16), byte(r.MiscSelect>>24))
	out = append(out, r.Reserved1...)
	out = append(out, r.Attributes...)
	out = append(out, r.MrEnclave...)
	out = append(out, r.Reserved2...)
	out = append(out, r.MrSigner...)
	out = append(out, r.Reserved3...)
	out = append(out, byte(r.IsvProdId), byte(r.IsvProdId>>8), byte(r.IsvSvn), byte(r.IsvSvn>>8))
	out = append(out, r.Reserved4...)
	out = append(out, r.ReportData...)
	return out
}

// sha256of: the specification's SHA-256 (crypto/sha256; in the engine a model hash function).
func sha256of(b []byte) []byte {
	d := sha256.Sum256(b)
	return d[:]
}

// links01: the three links of the statement as terms over the stub functions.
func links01(quote *pb.QuoteV4, leaf *x509.Certificate) (sigOK, bindOK, qeSigOK bool) {
	sd := quote.SignedData
	qr := sd.CertificationData.QeReportCertificationData
	key, sig := sd.EcdsaAttestationKey, sd.Signature
	// 1. header||body signed (ECDSA P-256 over SHA-256) by the attestation key in the quote
	digest := sha256of(ownHeaderBody(quote))
	sigOK = vp.And(vp.UFBool("OnCurveP256", key[0:32], key[32:64]),
		vp.UFBool("ECDSA_P256", key[0:32], key[32:64], digest, sig[0:32], sig[32:64]))
	// 2. QE report data = SHA-256(attestation key || QE auth data) || 0^32
	concat := append(append([]byte(nil), key...), qr.QeAuthData.Data...)
	h := sha256of(concat)
	bindOK = vp.BytesEq(qr.QeReport.ReportData[0:32], h)
	for i := 32; i < 64; i++ {
		bindOK = vp.And(bindOK, qr.QeReport.ReportData[i] == 0)
	}
	// 3. QE report signed by the key of the leaf certificate of the embedded chain
	qs := qr.QeReportSignature
	qeSigOK = vp.UFBool("CertSig", keyID(leaf), int(x509.ECDSAWithSHA256), ownQeReport(qr.QeReport), qs[0:32], qs[32:64])
	return
}

func h01(authLen int, nTrusted int) {
	w := mkPKI(nTrusted, nil)
	quote := mkQuote(w, authLen)
	opts := &Options{TrustedRoots: w.pool, Now: symTimeSet("t")}
	err := TdxQuote(quote, opts)
	sigOK, bindOK, qeSigOK := links01(quote, w.leaf)
	vp.Reach("accept", err == nil)
	vp.Reach("reject", err != nil)
	vp.Reach("reject-only-by-signature", vp.And(err != nil, bindOK, qeSigOK, !sigOK))
	vp.Reach("reject-only-by-binding", vp.And(err != nil, sigOK, qeSigOK, !bindOK))
	vp.Reach("reject-only-by-qe-signature", vp.And(err != nil, sigOK, bindOK, !qeSigOK))
	vp.Assert("accepted-implies-quote-signed-by-attestation-key", vp.Implies(err == nil, sigOK))
	vp.Assert("accepted-implies-report-data-binds-key-and-auth-data", vp.Implies(err == nil, bindOK))
	vp.Assert("accepted-implies-qe-report-signed-by-leaf-key", vp.Implies(err == nil, qeSigOK))
}

func H01a_auth32()          { h01(32, 0) }
func H01b_auth0()           { h01(0, 0) }
func H01c_auth1_pool()      { h01(1, 1) }
func H01d_auth33()          { h01(33, 0) }
func T01d_auth31()          { h01(31, 0) }
func T01e_auth200()         { h01(200, 1) }
func T01f_auth64()          { h01(64, 2) }

// H01g: histories. A second quote verified after an accepted first one (same process, fresh
// options) is judged on its own links: nothing remembered from the first verification helps it.
func H01g_SecondQuoteAfterAcceptedFirst() {
	w := mkPKI(0, nil)
	first := mkQuote(w, 32)
	if TdxQuote(first, &Options{Now: symTimeSet("t1")}) != nil {
		return
	}
	vp.Reach("first-accepted", true)
	second := q.Valid("q2_", q.Shape{AuthLen: 32, Chain: w.chainBytes})
	err := TdxQuote(second, &Options{Now: symTimeSet("t2")})
	sigOK, bindOK, qeSigOK := links01(second, w.leaf)
	vp.Reach("second-accepted", err == nil)
	vp.Reach("second-rejected", err != nil)
	vp.Assert("second-accepted-implies-quote-signed-by-attestation-key", vp.Implies(err == nil, sigOK))
	vp.Assert("second-accepted-implies-report-data-binds-key-and-auth-data", vp.Implies(err == nil, bindOK))
	vp.Assert("second-accepted-implies-qe-report-signed-by-leaf-key", vp.Implies(err == nil, qeSigOK))
}

// H01h: message fields wider than their wire size. A uint32 field that is serialised into two
// bytes carries 16 bits that no signature covers; an accepted message has none of them set.
func H01h_NoUnsignedBitsInAcceptedMessage() {
	w := mkPKI(0, nil)
	quote := q.Valid("q_", q.Shape{AuthLen: 0, Chain: w.chainBytes, WideInts: true})
	quote.Header.Version = vp.U32("version32")
	quote.Header.AttestationKeyType = vp.U32("akt32")
	quote.SignedData.CertificationData.CertificateDataType = vp.U32("certtype32")
	quote.SignedData.CertificationData.QeReportCertificationData.PckCertificateChainData.CertificateDataType = vp.U32("pcktype32")
	quote.SignedData.CertificationData.QeReportCertificationData.QeAuthData.ParsedDataSize = vp.U32("authsize32")
	err := TdxQuote(quote, &Options{Now: symTimeSet("t")})
	vp.Reach("accept", err == nil)
	r := quote.SignedData.CertificationData.QeReportCertificationData.QeReport
	vp.Assert("accepted-message-has-no-bits-outside-the-wire-format", vp.Implies(err == nil, vp.And(
		r.IsvProdId < 1<<16, r.IsvSvn < 1<<16, quote.Header.Version == 4, quote.Header.AttestationKeyType == 2,
		quote.SignedData.CertificationData.CertificateDataType == 6,
		quote.SignedData.CertificationData.QeReportCertificationData.PckCertificateChainData.CertificateDataType == 5,
		quote.SignedData.CertificationData.QeReportCertificationData.QeAuthData.ParsedDataSize == 0)))
}

// H01i: histories on ONE message and ONE options value. After an accepted verification the caller
// changes the message in place (body, header, key, QE report, auth data: any of them) and verifies
// it again with the same options: it is judged on what it now contains.
func H01i_SameMessageModifiedAndReverified() {
	w := mkPKI(0, nil)
	quote := mkQuote(w, 32)
	opts := &Options{Now: symTimeSet("t")}
	if TdxQuote(quote, opts) != nil {
		return
	}
	vp.Reach("first-accepted", true)
	qr := quote.SignedData.CertificationData.QeReportCertificationData
	switch vp.Choose("modifiedRegion", 5) {
	case 0:
		quote.TdQuoteBody.ReportData = vp.Bytes("new_report_data", 64)
	case 1:
		quote.Header.UserData = vp.Bytes("new_user_data", 20)
	case 2:
		quote.SignedData.EcdsaAttestationKey = vp.Bytes("new_key", 64)
	case 3:
		qr.QeReport.MrEnclave = vp.Bytes("new_mrenclave", 32)
	case 4:
		qr.QeAuthData.Data = vp.Bytes("new_auth", 32)
	}
	err := TdxQuote(quote, opts)
	sigOK, bindOK, qeSigOK := links01(quote, w.leaf)
	vp.Reach("re-verification-accepted", err == nil)
	vp.Reach("re-verification-rejected", err != nil)
	vp.Assert("re-verified-implies-quote-signed-by-attestation-key", vp.Implies(err == nil, sigOK))
	vp.Assert("re-verified-implies-report-data-binds-key-and-auth-data", vp.Implies(err == nil, bindOK))
	vp.Assert("re-verified-implies-qe-report-signed-by-leaf-key", vp.Implies(err == nil, qeSigOK))
}
