package verify

// World construction shared by the PKI harnesses: certificates, chains, pools,
// collateral documents and a scripted getter, all with symbolic attributes.

import (
	"crypto/ecdsa"
	"crypto/elliptic"
	"crypto/x509"
	"crypto/x509/pkix"
	"encoding/asn1"
	"encoding/pem"
	"time"

	"github.com/google/go-tdx-guest/pcs"
	pb "github.com/google/go-tdx-guest/proto/tdx"
	vp "github.com/google/go-tdx-guest/zzvp"
	"github.com/google/go-tdx-guest/zzvp/q"
)

// symTime: an instant with symbolic seconds and symbolic nanoseconds.
func symTime(name string) time.Time {
	s := vp.I64(name)
	vp.Assume(s >= 0)
	vp.Assume(s <= 1<<40)
	ns := vp.I64(name + "_nsec")
	vp.Assume(ns >= 0)
	vp.Assume(ns <= 999999999)
	return vp.MkTime(s, ns)
}

// mkCert: a certificate all of whose attributes that the verifier looks at are inputs.
func mkCert(p string) *x509.Certificate {
	c := &x509.Certificate{
		Version:            vp.Int(p + "_version"),
		SignatureAlgorithm: x509.SignatureAlgorithm(vp.Int(p + "_sigalg")),
		PublicKeyAlgorithm: x509.PublicKeyAlgorithm(vp.Int(p + "_pkalg")),
		PublicKey:          &ecdsa.PublicKey{Curve: &hCurve{params: &elliptic.CurveParams{Name: vp.Atom(p + "_curve")}}},
		Subject:            pkix.Name{CommonName: vp.Atom(p + "_cn"), SerialNumber: vp.Atom(p + "_subject_dn")},
		Issuer:             pkix.Name{CommonName: vp.Atom(p + "_issuer_cn"), SerialNumber: vp.Atom(p + "_issuer_dn")},
		NotBefore:          symTime(p + "_notbefore"),
		NotAfter:           symTime(p + "_notafter"),
		SerialNumber:       newSerial(p + "_serial"),
		SubjectKeyId:       vp.Bytes(p+"_skid", 4),
		IsCA:               vp.Bool(p + "_isca"),
	}
	vp.GhostSet(c, "id", vp.U64(p+"_certid"))
	vp.GhostSet(c, "keyid", vp.U64(p+"_keyid"))
	return c
}

// wellFormedAs: the per-certificate conditions of the statement (v3, ECDSA-SHA256, P-256 key, role name).
func wellFormedAs(c *x509.Certificate, cn string) bool {
	k := c.PublicKey.(*ecdsa.PublicKey)
	return vp.And(c.Version == 3, c.SignatureAlgorithm == x509.ECDSAWithSHA256, c.PublicKeyAlgorithm == x509.ECDSA,
		k.Curve.Params().Name == "P-256", c.Subject.CommonName == cn)
}

// derOf: a DER blob that parses to c (or fails to parse).
func derOf(p string, c *x509.Certificate, fail bool) []byte {
	d := vp.Bytes(p+"_der", 4)
	setDER(d, c, fail)
	return d
}

// pemChain builds a byte string in which encoding/pem finds the given blocks
// one after the other, followed by tail.
func pemChain(p string, blocks []*pem.Block, tail []byte) []byte {
	cur := tail
	for i := len(blocks) - 1; i >= 0; i-- {
		d := vp.Bytes(p+"_pem"+string(rune('0'+i)), 5)
		setPEM(d, blocks[i], cur)
		cur = d
	}
	return cur
}

func certBlock(p string, c *x509.Certificate, typ string, parseFails bool) *pem.Block {
	return &pem.Block{Type: typ, Bytes: derOf(p, c, parseFails)}
}

// pki is the part of a world every verification needs: the chain embedded in
// the quote and the trust configuration.
type pki struct {
	leaf, inter, root *x509.Certificate
	chainBytes        []byte
	exts              *pcs.PckExtensions
	trusted           []*x509.Certificate // caller's pool; nil: embedded root
	pool              *x509.CertPool
	embedded          *x509.Certificate
}

func mkExts(p string) *pcs.PckExtensions {
	return &pcs.PckExtensions{
		PPID:  vp.StrN(p+"_ppid", 32),
		FMSPC: vp.StrN(p+"_fmspc", 12),
		PCEID: vp.StrN(p+"_pceid", 4),
		TCB:   pcs.PckCertTCB{PCESvn: vp.U16(p + "_pcesvn"), CPUSvn: vp.Bytes(p+"_cpusvn", 16), CPUSvnComponents: vp.Bytes(p+"_cpusvncomp", 16)},
	}
}

// mkPKI: three-certificate chain in the quote (tail: optional trailing bytes),
// nTrusted certificates in the caller's pool (0: nil pool, embedded root).
func mkPKI(nTrusted int, tail []byte) *pki {
	w := &pki{leaf: mkCert("leaf"), inter: mkCert("inter"), root: mkCert("root")}
	if vp.Bool("leaf_sgx_extension_marked_critical") {
		// a critical extension crypto/x509 does not handle: path validation refuses the certificate
		w.leaf.UnhandledCriticalExtensions = []asn1.ObjectIdentifier{{1, 2, 840, 113741, 1, 13, 1}}
	}
	w.exts = mkExts("leaf")
	vp.GhostSet(w.leaf, "sgx-extensions", &extGhost{exts: w.exts})
	w.chainBytes = pemChain("chain", []*pem.Block{
		certBlock("leaf", w.leaf, "CERTIFICATE", false),
		certBlock("inter", w.inter, "CERTIFICATE", false),
		certBlock("root", w.root, "CERTIFICATE", false)}, tail)
	w.embedded = mkCert("embedded")
	trustedRootCertificate = w.embedded
	if nTrusted < 0 {
		// a non-nil pool that lists no certificate: nothing is trusted
		w.pool = m_NewCertPool()
	}
	if nTrusted > 0 {
		w.pool = m_NewCertPool()
		for i := 0; i < nTrusted; i++ {
			c := mkCert("trusted" + string(rune('0'+i)))
			w.trusted = append(w.trusted, c)
			m_AddCert(w.pool, c)
		}
	}
	return w
}

// configuredRoots: the roots the caller configured (the embedded root when no pool is given).
func (w *pki) configuredRoots() []*x509.Certificate {
	if w.pool == nil {
		return []*x509.Certificate{w.embedded}
	}
	return w.trusted
}

func symTimeSet(p string) *TimeSet {
	return &TimeSet{PckCertChain: symTime(p + "_now_pckchain"), TcbInfo: symTime(p + "_now_tcbinfo"), QeIdentity: symTime(p + "_now_qeidentity"),
		PckCrl: symTime(p + "_now_pckcrl"), RootCaCrl: symTime(p + "_now_rootcrl")}
}

// mkQuote: a structurally valid quote carrying the chain.
func mkQuote(w *pki, authLen int) *pb.QuoteV4 {
	return q.Valid("q_", q.Shape{AuthLen: authLen, Chain: w.chainBytes})
}

func blocksOf(w *pki) []*pem.Block {
	return []*pem.Block{
		certBlock("leaf", w.leaf, "CERTIFICATE", false),
		certBlock("inter", w.inter, "CERTIFICATE", false),
		certBlock("root", w.root, "CERTIFICATE", false)}
}
