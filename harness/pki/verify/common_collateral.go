package verify

// Collateral part of the world: scripted getter, issuer-chain headers, JSON
// documents and CRLs, with the encoding/json, net/url and encoding/hex stubs.

import (
	"crypto/x509"
	"crypto/x509/pkix"
	"encoding/json"
	"encoding/pem"
	"errors"

	"github.com/google/go-tdx-guest/pcs"
	vp "github.com/google/go-tdx-guest/zzvp"
)

// ---------- encoding/json ----------

type jsonGhost struct {
	fail       bool
	tcb        *pcs.TdxTcbInfo            // decoding the whole body as TdxTcbInfo
	qe         *pcs.QeIdentity            // decoding the whole body as QeIdentity
	members    map[string]json.RawMessage // exact-key members of the top-level object
	rawFail    bool
	tcbInfo    *pcs.TcbInfo         // decoding this (member) document as TcbInfo
	qeIdentity *pcs.EnclaveIdentity // decoding this (member) document as EnclaveIdentity
	// members the document does not mention: encoding/json leaves the corresponding
	// fields of the target as they were (it does not clear its destination)
	omitsModuleIdentities bool
	omitsFmspc            bool
	omitsQeLevels         bool
}

// encoding/json.Unmarshal is a deterministic function of the document and the
// target type. No relation between decoding a body and decoding one of its
// members is assumed (the decoder matches keys case-insensitively and takes
// the last duplicate, so there is none).
//
//vp:model encoding/json.Unmarshal
func m_jsonUnmarshal(data []byte, v any) error {
	if data == nil {
		return errParse
	}
	gv := vp.GhostGet(data, "json")
	if gv == nil {
		return errParse
	}
	g := gv.(*jsonGhost)
	switch t := v.(type) {
	case *pcs.TdxTcbInfo:
		if g.fail || g.tcb == nil {
			return errParse
		}
		*t = *g.tcb
	case *pcs.QeIdentity:
		if g.fail || g.qe == nil {
			return errParse
		}
		*t = *g.qe
	case *map[string]json.RawMessage:
		if g.fail || g.rawFail || g.members == nil {
			return errParse
		}
		// encoding/json adds to a non-nil map (it does not clear it)
		if *t == nil {
			*t = map[string]json.RawMessage{}
		}
		for k, v := range g.members {
			(*t)[k] = v
		}
	case *pcs.TcbInfo:
		if g.fail || g.tcbInfo == nil {
			return errParse
		}
		keepIds, keepFmspc := t.TdxModuleIdentities, t.Fmspc
		*t = *g.tcbInfo
		if g.omitsModuleIdentities {
			t.TdxModuleIdentities = keepIds
		}
		if g.omitsFmspc {
			t.Fmspc = keepFmspc
		}
	case *pcs.EnclaveIdentity:
		if g.fail || g.qeIdentity == nil {
			return errParse
		}
		keepLevels := t.TcbLevels
		*t = *g.qeIdentity
		if g.omitsQeLevels {
			t.TcbLevels = keepLevels
		}
	default:
		return errParse
	}
	return nil
}

// ---------- net/url, encoding/hex on strings ----------

type strGhost struct {
	fail  bool
	str   string
	bytes []byte
}

//vp:model net/url.QueryUnescape
func m_QueryUnescape(s string) (string, error) {
	gv := vp.GhostGet(s, "unescaped")
	if gv == nil {
		return "", errParse
	}
	g := gv.(*strGhost)
	if g.fail {
		return "", errParse
	}
	return g.str, nil
}

//vp:model encoding/hex.DecodeString
func m_hexDecodeString(s string) ([]byte, error) {
	gv := vp.GhostGet(s, "hex")
	if gv == nil {
		return nil, errParse
	}
	g := gv.(*strGhost)
	if g.fail {
		return nil, errParse
	}
	return g.bytes, nil
}

// ---------- issuer chains ----------

type issuerChain struct {
	signer, root *x509.Certificate
	header       string // the escaped header value
}

// mkIssuerChain: header value that unescapes to two CERTIFICATE blocks (signer, root).
func mkIssuerChain(p string) *issuerChain {
	ic := &issuerChain{signer: mkCert(p + "_signer"), root: mkCert(p + "_root")}
	unesc := vp.StrN(p+"_chain_unescaped", 3)
	blob := pemChain(p+"_chain", []*pem.Block{
		certBlock(p+"_signer", ic.signer, "CERTIFICATE", false),
		certBlock(p+"_root", ic.root, "CERTIFICATE", false)}, nil)
	// []byte(unesc) carries the string's ghost state: PEM decoding finds the first block there
	vp.GhostSet(unesc, "pem", vp.GhostGet(blob, "pem"))
	ic.header = vp.StrN(p+"_chain_escaped", 2)
	vp.GhostSet(ic.header, "unescaped", &strGhost{str: unesc})
	return ic
}

// ---------- documents ----------

func mkLevels(p string, k int, components bool) []pcs.TcbLevel {
	var out []pcs.TcbLevel
	for i := 0; i < k; i++ {
		n := p + string(rune('0'+i))
		lv := pcs.TcbLevel{Tcb: pcs.Tcb{Isvsvn: vp.U32(n + "_isvsvn"), Pcesvn: vp.U16(n + "_pcesvn")}, TcbStatus: pcs.TcbComponentStatus(vp.Atom(n + "_status"))}
		if components {
			lv.Tcb.SgxTcbcomponents = make([]pcs.TcbComponent, 16)
			lv.Tcb.TdxTcbcomponents = make([]pcs.TcbComponent, 16)
			for c := 0; c < 16; c++ {
				lv.Tcb.SgxTcbcomponents[c].Svn = vp.U8(n + "_sgx" + string(rune('a'+c)))
				lv.Tcb.TdxTcbcomponents[c].Svn = vp.U8(n + "_tdx" + string(rune('a'+c)))
			}
		}
		out = append(out, lv)
	}
	return out
}

func mkTcbInfo(p string, k, m int) *pcs.TcbInfo {
	t := &pcs.TcbInfo{
		ID: vp.Atom(p + "_id"), Version: vp.U8(p + "_version"), NextUpdate: symTime(p + "_nextupdate"),
		Fmspc: vp.Str(p+"_fmspc", 14), PceID: vp.Str(p+"_pceid", 6),
		TdxModule: pcs.TdxModule{
			Mrsigner:       pcs.HexBytes{Bytes: vp.Bytes(p+"_mrsigner", 48)},
			Attributes:     pcs.HexBytes{Bytes: vp.Bytes(p+"_attributes", 8)},
			AttributesMask: pcs.HexBytes{Bytes: vp.Bytes(p+"_attributesmask", 8)},
		},
		TcbLevels: mkLevels(p+"_lvl", k, true),
	}
	for i := 0; i < m; i++ {
		n := p + "_mod" + string(rune('0'+i))
		t.TdxModuleIdentities = append(t.TdxModuleIdentities, pcs.TdxModuleIdentity{ID: vp.Str(n+"_id", 8), TcbLevels: mkLevels(n+"_lvl", 1, false)})
	}
	return t
}

func mkEnclaveIdentity(p string, k int) *pcs.EnclaveIdentity {
	return &pcs.EnclaveIdentity{
		ID: vp.Atom(p + "_id"), Version: vp.U8(p + "_version"), NextUpdate: symTime(p + "_nextupdate"),
		Miscselect:     pcs.HexBytes{Bytes: vp.Bytes(p+"_miscselect", 4)},
		MiscselectMask: pcs.HexBytes{Bytes: vp.Bytes(p+"_miscselectmask", 4)},
		Attributes:     pcs.HexBytes{Bytes: vp.Bytes(p+"_attributes", 16)},
		AttributesMask: pcs.HexBytes{Bytes: vp.Bytes(p+"_attributesmask", 16)},
		Mrsigner:       pcs.HexBytes{Bytes: vp.Bytes(p+"_mrsigner", 32)},
		IsvProdID:      vp.U16(p + "_isvprodid"),
		TcbLevels:      mkLevels(p+"_lvl", k, false),
	}
}

// sigString: a hex signature string and the 64 bytes it decodes to.
func sigString(p string) (string, []byte) {
	s := vp.StrN(p+"_sighex", 4)
	b := vp.Bytes(p+"_sig", vp.IntRange(p+"_sig_len", 63, 65))
	vp.GhostSet(s, "hex", &strGhost{bytes: b})
	return s, b
}

type response struct {
	fail   bool
	header map[string][]string
	body   []byte
}

// doc is one signed JSON document as served by the endpoint.
type doc struct {
	chain     *issuerChain
	resp      *response
	rawMember []byte // exact-key member (the signed bytes)
	memberID  uint64
	sig       []byte
}

type crlDoc struct {
	resp *response
	crl  *x509.RevocationList
}

func mkCRL(p string, nRevoked int) *x509.RevocationList {
	crl := &x509.RevocationList{Issuer: pkix.Name{SerialNumber: vp.Atom(p + "_issuer_dn")}, NextUpdate: symTime(p + "_nextupdate")}
	for i := 0; i < nRevoked; i++ {
		// the entry's date is any instant (before or after the verification time): a listed serial is revoked
		crl.RevokedCertificates = append(crl.RevokedCertificates, pkix.RevokedCertificate{SerialNumber: newSerial(p + "_revoked" + string(rune('0'+i))),
			RevocationTime: symTime(p + "_revoked" + string(rune('0'+i)) + "_at")})
	}
	vp.GhostSet(crl, "id", vp.U64(p+"_crlid"))
	return crl
}

// collateralWorld extends the PKI with everything the endpoint serves.
type collateralWorld struct {
	*pki
	// what decoding the whole body yields, and what decoding the signed member yields
	bodyTcb   *pcs.TdxTcbInfo
	signedTcb *pcs.TcbInfo
	bodyQe    *pcs.QeIdentity
	signedQe  *pcs.EnclaveIdentity
	tcbDoc    *doc
	qeDoc     *doc
	pckCrlHdr *issuerChain
	pckCrl    *crlDoc
	rootCrls  []*crlDoc
	rootURLs  []string
	getter    *hGetter
}

type hGetter struct {
	w    *collateralWorld
	urls []string
	kind []string
}

var errNet = errors.New("network unreachable")

const (
	urlQe          = "https://api.trustedservices.intel.com/tdx/certification/v4/qe/identity"
	urlTcbPrefix   = "https://api.trustedservices.intel.com/tdx/certification/v4/tcb?fmspc="
	urlCrlPlatform = "https://api.trustedservices.intel.com/sgx/certification/v4/pckcrl?ca=platform&encoding=der"
	urlCrlProc     = "https://api.trustedservices.intel.com/sgx/certification/v4/pckcrl?ca=processor&encoding=der"
)

func (g *hGetter) serve(kind string, r *response) (map[string][]string, []byte, error) {
	g.kind = append(g.kind, kind)
	if r.fail {
		return nil, nil, errNet
	}
	return r.header, r.body, nil
}

// Get is a deterministic map from URL to response.
func (g *hGetter) Get(url string) (map[string][]string, []byte, error) {
	g.urls = append(g.urls, url)
	w := g.w
	if url == urlTcbPrefix+w.exts.FMSPC {
		return g.serve("tcb", w.tcbDoc.resp)
	}
	if url == urlQe {
		return g.serve("qe", w.qeDoc.resp)
	}
	if url == urlCrlPlatform || url == urlCrlProc {
		return g.serve("pckcrl", w.pckCrl.resp)
	}
	for i, u := range w.rootURLs {
		if url == u {
			return g.serve("rootcrl", w.rootCrls[i].resp)
		}
	}
	g.kind = append(g.kind, "other")
	return nil, nil, errNet
}

func hdr(key string, vals ...string) map[string][]string {
	return map[string][]string{key: vals}
}

// mkCollateralWorld: k TCB levels, m module identities, qk QE levels, nDist
// root-CRL distribution points, nRev revoked entries per CRL.
func mkCollateralWorld(nTrusted, k, m, qk, nDist, nRev int) *collateralWorld {
	return mkCollateralWorldOpt(nTrusted, k, m, qk, nDist, nRev, false)
}

// omissions: the signed members may omit some of their members (encoding/json merge semantics)
func mkCollateralWorldOpt(nTrusted, k, m, qk, nDist, nRev int, omissions bool) *collateralWorld {
	w := &collateralWorld{pki: mkPKI(nTrusted, nil)}
	// TCB info
	tcbChain := mkIssuerChain("tcb")
	sigStr, sigBytes := sigString("tcb")
	w.signedTcb = mkTcbInfo("tcb_signed", k, m)
	w.bodyTcb = &pcs.TdxTcbInfo{TcbInfo: *mkTcbInfo("tcb_body", k, m), Signature: sigStr}
	raw := vp.Bytes("tcb_rawmember", 9)
	rawID := vp.U64("tcb_rawmember_id")
	vp.GhostSet(raw, "content-id", rawID)
	tg := &jsonGhost{tcbInfo: w.signedTcb}
	if omissions {
		// the signed document may not mention some members at all (their Go value is then the zero value)
		if vp.Bool("tcb_signed_omits_module_identities") {
			tg.omitsModuleIdentities = true
			w.signedTcb.TdxModuleIdentities = nil
		}
		if vp.Bool("tcb_signed_omits_fmspc") {
			tg.omitsFmspc = true
			w.signedTcb.Fmspc = ""
		}
	}
	vp.GhostSet(raw, "json", tg)
	body := vp.Bytes("tcb_body_bytes", 10)
	vp.GhostSet(body, "json", &jsonGhost{tcb: w.bodyTcb, members: map[string]json.RawMessage{"tcbInfo": raw, "signature": []byte{1}}})
	w.tcbDoc = &doc{chain: tcbChain, rawMember: raw, memberID: rawID, sig: sigBytes,
		resp: &response{fail: vp.Bool("tcb_fetch_fails"), header: hdr(pcs.TcbInfoIssuerChainPhrase, tcbChain.header), body: body}}
	// QE identity
	qeChain := mkIssuerChain("qe")
	qsigStr, qsigBytes := sigString("qe")
	w.signedQe = mkEnclaveIdentity("qe_signed", qk)
	w.bodyQe = &pcs.QeIdentity{EnclaveIdentity: *mkEnclaveIdentity("qe_body", qk), Signature: qsigStr}
	qraw := vp.Bytes("qe_rawmember", 9)
	qrawID := vp.U64("qe_rawmember_id")
	vp.GhostSet(qraw, "content-id", qrawID)
	qg := &jsonGhost{qeIdentity: w.signedQe}
	if omissions && vp.Bool("qe_signed_omits_levels") {
		qg.omitsQeLevels = true
		w.signedQe.TcbLevels = nil
	}
	vp.GhostSet(qraw, "json", qg)
	qbody := vp.Bytes("qe_body_bytes", 10)
	vp.GhostSet(qbody, "json", &jsonGhost{qe: w.bodyQe, members: map[string]json.RawMessage{"enclaveIdentity": qraw, "signature": []byte{1}}})
	w.qeDoc = &doc{chain: qeChain, rawMember: qraw, memberID: qrawID, sig: qsigBytes,
		resp: &response{fail: vp.Bool("qe_fetch_fails"), header: hdr(pcs.SgxQeIdentityIssuerChainPhrase, qeChain.header), body: qbody}}
	// PCK CRL
	w.pckCrlHdr = mkIssuerChain("pckcrl")
	pc := mkCRL("pckcrl", nRev)
	pbody := vp.Bytes("pckcrl_der", 6)
	setCRL(pbody, pc, vp.Bool("pckcrl_garbage"))
	w.pckCrl = &crlDoc{crl: pc, resp: &response{fail: vp.Bool("pckcrl_fetch_fails"), header: hdr(pcs.SgxPckCrlIssuerChainPhrase, w.pckCrlHdr.header), body: pbody}}
	// Root CA CRL: distribution points of the QE identity issuer chain's root
	for i := 0; i < nDist; i++ {
		n := "rootcrl" + string(rune('0'+i))
		u := "https://certificates.example/" + n + ".der"
		w.rootURLs = append(w.rootURLs, u)
		rc := mkCRL(n, nRev)
		rb := vp.Bytes(n+"_der", 6)
		setCRL(rb, rc, vp.Bool(n+"_garbage"))
		w.rootCrls = append(w.rootCrls, &crlDoc{crl: rc, resp: &response{fail: vp.Bool(n + "_fetch_fails"), body: rb}})
	}
	qeChain.root.CRLDistributionPoints = w.rootURLs
	w.getter = &hGetter{w: w}
	return w
}
