package verify

// Contract stubs for the library surface that verification leans on. Every
// stub answers from ghost state that the harness attached to the objects
// involved, or from uninterpreted functions of its arguments, so that two
// executions over the same world see the same answers (DESIGN.md section 4).

import (
	"crypto/ecdsa"
	"crypto/elliptic"
	"crypto/x509"
	"crypto/x509/pkix"
	"encoding/pem"
	"errors"
	"math/big"
	"time"

	"github.com/google/go-tdx-guest/pcs"
	vp "github.com/google/go-tdx-guest/zzvp"
	"golang.org/x/crypto/cryptobyte"
	"golang.org/x/crypto/cryptobyte/asn1"
)

//vp:merge (time.Time).After
//vp:merge (time.Time).Before
//vp:merge (time.Time).Equal
//vp:merge github.com/google/go-tdx-guest/verify.validateCertificate
//vp:merge github.com/google/go-tdx-guest/verify.validateX509Cert
//vp:merge github.com/google/go-tdx-guest/verify.validateCRL
//vp:merge github.com/google/go-tdx-guest/verify.checkCollateralExpiration
//vp:merge github.com/google/go-tdx-guest/verify.checkCertificateExpiration
//vp:merge github.com/google/go-tdx-guest/verify.verifyResponse
//vp:merge github.com/google/go-tdx-guest/verify.verifyTdQuoteBody
//vp:merge github.com/google/go-tdx-guest/verify.verifyQeReport
//vp:merge github.com/google/go-tdx-guest/verify.verifyHash256
//vp:merge github.com/google/go-tdx-guest/verify.applyMask
//vp:merge github.com/google/go-tdx-guest/verify.isCPUSvnHigherOrEqual
//vp:merge github.com/google/go-tdx-guest/verify.isTdxTcbSvnHigherOrEqual

var (
	errStub   = errors.New("stub: operation failed")
	errSig    = errors.New("stub: signature does not verify")
	errParse  = errors.New("stub: parse error")
	errVerify = errors.New("stub: x509: certificate signed by unknown authority / expired / constraint violated")
)

// ---------- PEM ----------

type pemGhost struct {
	block *pem.Block
	rest  []byte
}

// setPEM attaches what encoding/pem finds at the front of data.
func setPEM(data []byte, block *pem.Block, rest []byte) {
	vp.GhostSet(data, "pem", &pemGhost{block: block, rest: rest})
}

//vp:model encoding/pem.Decode
func m_pemDecode(data []byte) (*pem.Block, []byte) {
	if data == nil {
		return nil, data
	}
	gv := vp.GhostGet(data, "pem")
	if gv == nil {
		return nil, data // no PEM block in this byte string
	}
	g := gv.(*pemGhost)
	if g.block == nil {
		return nil, data
	}
	return g.block, g.rest
}

// ---------- certificates ----------

type certGhost struct {
	cert *x509.Certificate
	fail bool
}

func setDER(der []byte, c *x509.Certificate, fail bool) {
	vp.GhostSet(der, "cert", &certGhost{cert: c, fail: fail})
}

//vp:model crypto/x509.ParseCertificate
func m_ParseCertificate(der []byte) (*x509.Certificate, error) {
	if der == nil {
		return nil, errParse
	}
	gv := vp.GhostGet(der, "cert")
	if gv == nil {
		return nil, errParse
	}
	g := gv.(*certGhost)
	if g.fail || g.cert == nil {
		return nil, errParse
	}
	return g.cert, nil
}

// certID / keyID: identities given to a certificate and to its key by the harness.
func certID(c *x509.Certificate) uint64 { return vp.GhostGet(c, "id").(uint64) }
func keyID(c *x509.Certificate) uint64  { return vp.GhostGet(c, "keyid").(uint64) }

// The full distinguished name is carried in Name.SerialNumber (an opaque
// string independent of CommonName): Name.String() is a deterministic
// function of the name.
//
//vp:model (crypto/x509/pkix.Name).String
func m_NameString(n pkix.Name) string { return n.SerialNumber }

// Equal: same DER bytes, i.e. the same certificate.
//
//vp:model (*crypto/x509.Certificate).Equal
func m_CertEqual(c, other *x509.Certificate) bool {
	if c == nil || other == nil {
		return c == other
	}
	return certID(c) == certID(other)
}

//vp:model (*crypto/x509.Certificate).CheckSignatureFrom
func m_CheckSignatureFrom(c *x509.Certificate, parent *x509.Certificate) error {
	// nil iff c's signature verifies under parent's key and the other
	// conditions crypto/x509 imposes (CA bit, key usage, algorithm) hold
	if !vp.UFBool("IssuerOK", certID(c), certID(parent)) {
		// crypto/x509 reports a parent that may not sign certificates before it looks at the signature
		return x509.ConstraintViolationError{}
	}
	if vp.UFBool("SigBy", certID(c), keyID(parent)) {
		return nil
	}
	return errSig
}

// sigInts: the (r, s) integers inside a DER signature built by cryptobyte.
func sigInts(sig []byte) ([]byte, []byte, bool) {
	gv := vp.GhostGet(sig, "der-ints")
	if gv == nil {
		return nil, nil, false
	}
	l := gv.(*intList)
	if len(l.v) != 2 {
		return nil, nil, false
	}
	return l.v[0], l.v[1], true
}

// signedID: identity of signed content: documents carry a content id, plain
// byte strings are their bytes.
func certSigHolds(key uint64, algo x509.SignatureAlgorithm, signed, r, s []byte) bool {
	if idv := vp.GhostGet(signed, "content-id"); idv != nil {
		return vp.UFBool("CertSigDoc", key, int(algo), idv.(uint64), r, s)
	}
	return vp.UFBool("CertSig", key, int(algo), signed, r, s)
}

//vp:model (*crypto/x509.Certificate).CheckSignature
func m_CheckSignature(c *x509.Certificate, algo x509.SignatureAlgorithm, signed, signature []byte) error {
	r, s, ok := sigInts(signature)
	if !ok {
		return errSig
	}
	if certSigHolds(keyID(c), algo, signed, r, s) {
		return nil
	}
	return errSig
}

// ---------- pools and path validation ----------

type poolGhost struct {
	certs []*x509.Certificate
}

func poolCerts(p *x509.CertPool) []*x509.Certificate {
	if p == nil {
		return nil
	}
	gv := vp.GhostGet(p, "pool")
	if gv == nil {
		return nil
	}
	return gv.(*poolGhost).certs
}

//vp:model crypto/x509.NewCertPool
func m_NewCertPool() *x509.CertPool {
	p := &x509.CertPool{}
	vp.GhostSet(p, "pool", &poolGhost{})
	return p
}

//vp:model (*crypto/x509.CertPool).AddCert
func m_AddCert(p *x509.CertPool, c *x509.Certificate) {
	if c == nil {
		panic("adding nil Certificate to CertPool")
	}
	g := vp.GhostGet(p, "pool").(*poolGhost)
	g.certs = append(g.certs, c)
}

// Clone: an independent pool with the same certificates.
//
//vp:model (*crypto/x509.CertPool).Clone
func m_PoolClone(p *x509.CertPool) *x509.CertPool {
	g := vp.GhostGet(p, "pool").(*poolGhost)
	c := &x509.CertPool{}
	vp.GhostSet(c, "pool", &poolGhost{certs: append([]*x509.Certificate(nil), g.certs...)})
	return c
}

// Equal reports whether two pools hold the same certificates.
//
//vp:model (*crypto/x509.CertPool).Equal
func m_PoolEqual(p, other *x509.CertPool) bool {
	if p == nil || other == nil {
		return p == other
	}
	a, b := poolCerts(p), poolCerts(other)
	if len(a) != len(b) {
		return false
	}
	eq := true
	for i := range a {
		eq = vp.And(eq, certID(a[i]) == certID(b[i]))
	}
	return eq
}

type bundleGhost struct {
	certs []*x509.Certificate
}

//vp:model (*crypto/x509.CertPool).AppendCertsFromPEM
func m_AppendCertsFromPEM(p *x509.CertPool, pemCerts []byte) bool {
	gv := vp.GhostGet(pemCerts, "bundle")
	if gv == nil {
		return false
	}
	b := gv.(*bundleGhost)
	g := vp.GhostGet(p, "pool").(*poolGhost)
	for _, c := range b.certs {
		g.certs = append(g.certs, c)
	}
	return len(b.certs) > 0
}

func unixOf(t time.Time) int64 { return t.Unix() }

func inWindow(c *x509.Certificate, t time.Time) bool {
	return vp.And(!t.Before(c.NotBefore), !t.After(c.NotAfter))
}

func issuedBy(c, parent *x509.Certificate) bool {
	return vp.And(c.Issuer.SerialNumber == parent.Subject.SerialNumber, vp.UFBool("SigBy", certID(c), keyID(parent)))
}

// verifyModel: Go's documented path validation, as a term: some path
// cert -> [one intermediate] -> root in roots with a valid signature and
// matching names on every link and every element inside its validity window
// at t, and the remaining constraints (an uninterpreted predicate of the path).
func verifyModel(c *x509.Certificate, roots, inters []*x509.Certificate, t time.Time) bool {
	ok := false
	for _, r := range roots {
		direct := vp.And(issuedBy(c, r), inWindow(r, t), vp.UFBool("PathOther", certID(c), uint64(0), certID(r)))
		same := certID(c) == certID(r)
		ok = vp.Or(ok, direct, same)
		for _, i := range inters {
			via := vp.And(issuedBy(c, i), inWindow(i, t), issuedBy(i, r), inWindow(r, t), vp.UFBool("PathOther", certID(c), certID(i), certID(r)))
			ok = vp.Or(ok, via)
		}
	}
	// a certificate with a critical extension that crypto/x509 does not handle is never valid
	return vp.And(ok, inWindow(c, t), len(c.UnhandledCriticalExtensions) == 0)
}

//vp:model (*crypto/x509.Certificate).Verify
func m_Verify(c *x509.Certificate, opts x509.VerifyOptions) ([][]*x509.Certificate, error) {
	if verifyModel(c, poolCerts(opts.Roots), poolCerts(opts.Intermediates), opts.CurrentTime) {
		return [][]*x509.Certificate{{c}}, nil
	}
	// the failure is reported with one of the error types crypto/x509 uses
	if len(c.UnhandledCriticalExtensions) != 0 {
		return nil, x509.UnhandledCriticalExtension{}
	}
	switch vp.UFU64("VerifyErrorKind", certID(c)) % 4 {
	case 0:
		return nil, x509.UnknownAuthorityError{}
	case 1:
		return nil, x509.CertificateInvalidError{Cert: c, Reason: x509.Expired}
	case 2:
		return nil, x509.UnhandledCriticalExtension{}
	}
	return nil, errVerify
}

// ---------- CRLs ----------

type crlGhost struct {
	crl  *x509.RevocationList
	fail bool
}

func setCRL(der []byte, crl *x509.RevocationList, fail bool) {
	vp.GhostSet(der, "crl", &crlGhost{crl: crl, fail: fail})
}

//vp:model crypto/x509.ParseRevocationList
func m_ParseRevocationList(der []byte) (*x509.RevocationList, error) {
	if der == nil {
		return nil, errParse
	}
	gv := vp.GhostGet(der, "crl")
	if gv == nil {
		return nil, errParse
	}
	g := gv.(*crlGhost)
	if g.fail || g.crl == nil {
		return nil, errParse
	}
	return g.crl, nil
}

//vp:model (*crypto/x509.RevocationList).CheckSignatureFrom
func m_CrlCheckSignatureFrom(rl *x509.RevocationList, parent *x509.Certificate) error {
	if !vp.UFBool("CrlIssuerOK", vp.GhostGet(rl, "id").(uint64), certID(parent)) {
		// a parent whose key usage lacks cRLSign: reported before the signature is looked at
		return x509.ConstraintViolationError{}
	}
	if vp.UFBool("CrlSigBy", vp.GhostGet(rl, "id").(uint64), keyID(parent)) {
		return nil
	}
	return errSig
}

// ---------- big integers (values up to 32 bytes), ECDSA, SHA-256, DER signatures ----------

// A *big.Int carries its big-endian value bytes as ghost state.
//
//vp:model (*math/big.Int).SetBytes
func m_BigSetBytes(z *big.Int, buf []byte) *big.Int {
	vp.GhostSet(z, "bytes", append([]byte(nil), buf...))
	return z
}

func bigBytes(z *big.Int) []byte {
	gv := vp.GhostGet(z, "bytes")
	if gv == nil {
		return nil
	}
	return gv.([]byte)
}

func newSerial(name string) *big.Int {
	z := new(big.Int)
	vp.GhostSet(z, "serial", vp.U64(name))
	return z
}

func serialOf(z *big.Int) uint64 { return vp.GhostGet(z, "serial").(uint64) }

//vp:model (*math/big.Int).Cmp
func m_BigCmp(x, y *big.Int) int {
	a, b := serialOf(x), serialOf(y)
	return vp.IteInt(a == b, 0, vp.IteInt(a < b, -1, 1))
}

// hCurve stands for elliptic.P256().
type hCurve struct{ params *elliptic.CurveParams }

func (c *hCurve) Params() *elliptic.CurveParams { return c.params }
func (c *hCurve) IsOnCurve(x, y *big.Int) bool {
	return vp.UFBool("OnCurveP256", bigBytes(x), bigBytes(y))
}
func (c *hCurve) Add(x1, y1, x2, y2 *big.Int) (*big.Int, *big.Int) { panic("not modelled") }
func (c *hCurve) Double(x1, y1 *big.Int) (*big.Int, *big.Int)      { panic("not modelled") }
func (c *hCurve) ScalarMult(x1, y1 *big.Int, k []byte) (*big.Int, *big.Int) {
	panic("not modelled")
}
func (c *hCurve) ScalarBaseMult(k []byte) (*big.Int, *big.Int) { panic("not modelled") }

var p256 = &hCurve{params: &elliptic.CurveParams{Name: "P-256"}}

//vp:model crypto/elliptic.P256
func m_P256() elliptic.Curve { return p256 }

//vp:model crypto/ecdsa.VerifyASN1
func m_VerifyASN1(pub *ecdsa.PublicKey, hash, sig []byte) bool {
	r, s, ok := sigInts(sig)
	if !ok {
		return false
	}
	return vp.UFBool("ECDSA_P256", bigBytes(pub.X), bigBytes(pub.Y), hash, r, s)
}

type intList struct{ v [][]byte }

// cryptobyte.Builder as used by abi.SignatureToDER: SEQUENCE { INTEGER, INTEGER }.
// DER(SEQUENCE{r,s}) is injective in (r, s): the blob carries the integers.
//
//vp:model (*golang.org/x/crypto/cryptobyte.Builder).AddASN1
func m_AddASN1(b *cryptobyte.Builder, tag asn1.Tag, f cryptobyte.BuilderContinuation) {
	if vp.GhostGet(b, "ints") == nil {
		vp.GhostSet(b, "ints", &intList{})
	}
	f(b)
}

//vp:model (*golang.org/x/crypto/cryptobyte.Builder).AddASN1BigInt
func m_AddASN1BigInt(b *cryptobyte.Builder, n *big.Int) {
	l := vp.GhostGet(b, "ints").(*intList)
	l.v = append(l.v, bigBytes(n))
}

//vp:model (*golang.org/x/crypto/cryptobyte.Builder).Bytes
func m_BuilderBytes(b *cryptobyte.Builder) ([]byte, error) {
	out := vp.Bytes("der-signature", 8)
	gv := vp.GhostGet(b, "ints")
	if gv != nil {
		vp.GhostSet(out, "der-ints", gv)
	}
	return out, nil
}

// ---------- PCK certificate extensions (C13's subject, summarised here) ----------

type extGhost struct {
	exts *pcs.PckExtensions
	fail bool
}

//vp:model github.com/google/go-tdx-guest/pcs.PckCertificateExtensions
func m_PckCertificateExtensions(cert *x509.Certificate) (*pcs.PckExtensions, error) {
	gv := vp.GhostGet(cert, "sgx-extensions")
	if gv == nil {
		return nil, errParse
	}
	g := gv.(*extGhost)
	if g.fail {
		return nil, errParse
	}
	return g.exts, nil
}

// ---------- clock ----------

var modelNow time.Time

//vp:model time.Now
func m_timeNow() time.Time { return modelNow }
