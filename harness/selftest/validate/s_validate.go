package validate

import (
	"github.com/google/go-tdx-guest/abi"
	pb "github.com/google/go-tdx-guest/proto/tdx"
	vp "github.com/google/go-tdx-guest/zzvp"
)

func S_validate_Sample() {
	raw := vp.File("testing/testdata/tdx_prod_quote_SPR_E4.dat")
	res, err := abi.QuoteToProto(raw)
	if err != nil {
		vp.Emit("parse-err", err)
		return
	}
	quote := res.(*pb.QuoteV4)
	body := quote.TdQuoteBody
	bad := append([]byte(nil), body.MrTd...)
	bad[47] ^= 1
	cases := []*Options{
		{},
		{TdQuoteBodyOptions: TdQuoteBodyOptions{MrTd: body.MrTd, MrSeam: body.MrSeam, ReportData: body.ReportData, Rtmrs: body.Rtmrs}},
		{TdQuoteBodyOptions: TdQuoteBodyOptions{MrTd: bad}},
		{TdQuoteBodyOptions: TdQuoteBodyOptions{MrTd: body.MrTd[:47]}},
		{HeaderOptions: HeaderOptions{MinimumQeSvn: 0, MinimumPceSvn: 0, QeVendorID: quote.Header.QeVendorId}},
		{HeaderOptions: HeaderOptions{MinimumQeSvn: 65535}},
		{TdQuoteBodyOptions: TdQuoteBodyOptions{MinimumTeeTcbSvn: body.TeeTcbSvn}},
		{TdQuoteBodyOptions: TdQuoteBodyOptions{MinimumTeeTcbSvn: []byte{255, 255, 255, 255, 255, 255, 255, 255, 255, 255, 255, 255, 255, 255, 255, 255}}},
		{TdQuoteBodyOptions: TdQuoteBodyOptions{AnyMrTd: [][]byte{bad, body.MrTd}}},
		{TdQuoteBodyOptions: TdQuoteBodyOptions{AnyMrTd: [][]byte{bad}}},
		{TdQuoteBodyOptions: TdQuoteBodyOptions{Rtmrs: [][]byte{body.Rtmrs[0], nil, nil}}},
	}
	for _, o := range cases {
		vp.Emit("validate", TdxQuote(quote, o))
	}
}
