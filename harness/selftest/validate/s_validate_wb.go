package validate

import (
	"github.com/google/go-tdx-guest/abi"
	pb "github.com/google/go-tdx-guest/proto/tdx"
	vp "github.com/google/go-tdx-guest/zzvp"
)

// White-box file: unexported helpers no test of the repository pins down.
func S_validate_Helpers() {
	raw := vp.File("testing/testdata/tdx_prod_quote_SPR_E4.dat")
	res, err := abi.QuoteToProto(raw)
	if err != nil {
		vp.Emit("parse-err", err)
		return
	}
	body := res.(*pb.QuoteV4).TdQuoteBody
	vp.Emit("xfam-ok", validateXfam(body.Xfam, xfamFixed1, xfamFixed0))
	vp.Emit("xfam-bad", validateXfam([]byte{0, 0, 0, 0, 0, 0, 0, 0}, xfamFixed1, xfamFixed0))
	vp.Emit("tdattr-bad", validateTdAttributes([]byte{2, 0, 0, 0, 0, 0, 0, 0}, tdAttributesFixed1, tdAttributesFixed0))
}
