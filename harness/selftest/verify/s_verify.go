package verify

import (
	"github.com/google/go-tdx-guest/abi"
	"github.com/google/go-tdx-guest/pcs"
	pb "github.com/google/go-tdx-guest/proto/tdx"
	vp "github.com/google/go-tdx-guest/zzvp"
)

func lvl(sgx, tdx byte, pce uint16, status pcs.TcbComponentStatus) pcs.TcbLevel {
	l := pcs.TcbLevel{Tcb: pcs.Tcb{Pcesvn: pce}, TcbStatus: status}
	for i := 0; i < 16; i++ {
		l.Tcb.SgxTcbcomponents = append(l.Tcb.SgxTcbcomponents, pcs.TcbComponent{Svn: sgx})
		l.Tcb.TdxTcbcomponents = append(l.Tcb.TdxTcbcomponents, pcs.TcbComponent{Svn: tdx})
	}
	return l
}

// S_verify_TcbLogic: the TCB matching and QE identity logic on concrete data derived from the sample quote.
func S_verify_TcbLogic() {
	raw := vp.File("testing/testdata/tdx_prod_quote_SPR_E4.dat")
	res, err := abi.QuoteToProto(raw)
	if err != nil {
		vp.Emit("parse-err", err)
		return
	}
	quote := res.(*pb.QuoteV4)
	body := quote.TdQuoteBody
	ext := &pcs.PckExtensions{FMSPC: "50806f000000", PCEID: "0000", TCB: pcs.PckCertTCB{PCESvn: 11, CPUSvnComponents: []byte{7, 7, 2, 2, 2, 1, 0, 3, 0, 0, 0, 0, 0, 0, 0, 0}}}
	info := pcs.TcbInfo{Fmspc: "50806F000000", PceID: "0000",
		TdxModule: pcs.TdxModule{Mrsigner: pcs.HexBytes{Bytes: body.MrSignerSeam}, Attributes: pcs.HexBytes{Bytes: body.SeamAttributes}, AttributesMask: pcs.HexBytes{Bytes: []byte{255, 255, 255, 255, 255, 255, 255, 255}}},
		TcbLevels: []pcs.TcbLevel{lvl(9, 9, 13, pcs.TcbComponentStatusUpToDate), lvl(0, 0, 5, pcs.TcbComponentStatusOutOfDate), lvl(0, 0, 0, pcs.TcbComponentStatusRevoked)},
		TdxModuleIdentities: []pcs.TdxModuleIdentity{{ID: "TDX_01", TcbLevels: []pcs.TcbLevel{{Tcb: pcs.Tcb{Isvsvn: 2}, TcbStatus: pcs.TcbComponentStatusUpToDate}}}}}
	vp.Emit("body-1", verifyTdQuoteBody(body, &tdQuoteBodyOptions{tcbInfo: info, pckCertExtensions: ext}))
	info.TcbLevels = info.TcbLevels[2:]
	vp.Emit("body-2", verifyTdQuoteBody(body, &tdQuoteBodyOptions{tcbInfo: info, pckCertExtensions: ext}))
	info.TcbLevels = []pcs.TcbLevel{lvl(0, 0, 0, pcs.TcbComponentStatusUpToDate)}
	vp.Emit("body-3", verifyTdQuoteBody(body, &tdQuoteBodyOptions{tcbInfo: info, pckCertExtensions: ext}))
	info.Fmspc = "50806f000001"
	vp.Emit("body-4", verifyTdQuoteBody(body, &tdQuoteBodyOptions{tcbInfo: info, pckCertExtensions: ext}))
	report := quote.SignedData.CertificationData.QeReportCertificationData.QeReport
	id := &pcs.EnclaveIdentity{Miscselect: pcs.HexBytes{Bytes: []byte{0, 0, 0, 0}}, MiscselectMask: pcs.HexBytes{Bytes: []byte{255, 255, 255, 255}},
		Attributes: pcs.HexBytes{Bytes: report.Attributes}, AttributesMask: pcs.HexBytes{Bytes: []byte{255, 255, 255, 255, 255, 255, 255, 255, 255, 255, 255, 255, 255, 255, 255, 255}},
		Mrsigner: pcs.HexBytes{Bytes: report.MrSigner}, IsvProdID: uint16(report.IsvProdId),
		TcbLevels: []pcs.TcbLevel{{Tcb: pcs.Tcb{Isvsvn: 100}, TcbStatus: "UpToDate"}, {Tcb: pcs.Tcb{Isvsvn: 0}, TcbStatus: "OutOfDate"}}}
	vp.Emit("qe-1", verifyQeReport(report, &qeReportOptions{qeIdentity: id}))
	id.TcbLevels[1].TcbStatus = "UpToDate"
	vp.Emit("qe-2", verifyQeReport(report, &qeReportOptions{qeIdentity: id}))
	id.AttributesMask.Bytes = id.AttributesMask.Bytes[:15]
	vp.Emit("qe-3", verifyQeReport(report, &qeReportOptions{qeIdentity: id}))
	vp.Emit("url", pcs.TcbInfoURL(ext.FMSPC))
	vp.Emit("crlurl", pcs.PckCrlURL("platform"))
}
