package verify

import (
	"github.com/google/go-tdx-guest/abi"
	"github.com/google/go-tdx-guest/pcs"
	pb "github.com/google/go-tdx-guest/proto/tdx"
	vp "github.com/google/go-tdx-guest/zzvp"
)

// S_verify_Helpers: unexported helpers that no test of the repository pins down (white-box file:
// left out when the helpers are renamed or re-shaped).
func S_verify_Helpers() {
	raw := vp.File("testing/testdata/tdx_prod_quote_SPR_E4.dat")
	res, err := abi.QuoteToProto(raw)
	if err != nil {
		vp.Emit("parse-err", err)
		return
	}
	quote := res.(*pb.QuoteV4)
	body := quote.TdQuoteBody
	l, e := getMatchingTcbLevel([]pcs.TcbLevel{lvl(9, 0, 0, "UpToDate"), lvl(1, 0, 11, "SWHardeningNeeded")}, body, 11, []byte{7, 7, 2, 2, 2, 1, 0, 3, 0, 0, 0, 0, 0, 0, 0, 0})
	vp.Emit("level-err", e)
	vp.Emit("level-status", string(l.TcbStatus))
	hb, e2 := getHeaderAndTdQuoteBodyInAbiBytes(quote)
	vp.Emit("hdrbody-err", e2)
	vp.Emit("hdrbody", hb)
	vp.Emit("mask", applyMask([]byte{0xf0, 0x0f, 0xaa}, []byte{0x3c, 0x3c, 0xff}))
}
