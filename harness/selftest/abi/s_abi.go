package abi

import (
	vp "github.com/google/go-tdx-guest/zzvp"
)

//vp:merge github.com/google/go-tdx-guest/abi.nothing

// Translator self-test: the repository's own test inputs pushed through the real functions,
// natively and under gosym in fully concrete mode; both must emit the same values.

func sampleQuote() []byte { return vp.File("testing/testdata/tdx_prod_quote_SPR_E4.dat") }

func lcg(x uint64) uint64 { return x*6364136223846793005 + 1442695040888963407 }

func S_abi_RoundTripSample() {
	raw := sampleQuote()
	q, err := QuoteToProto(raw)
	vp.Emit("parse-err", err)
	if err != nil {
		return
	}
	out, err := QuoteToAbiBytes(q)
	vp.Emit("serialise-err", err)
	vp.Emit("roundtrip", out)
}

func S_abi_MutatedSample() {
	raw := sampleQuote()
	x := vp.Seed() + 12345
	for k := 0; k < 24; k++ {
		x = lcg(x)
		b := append([]byte(nil), raw...)
		switch k % 3 {
		case 0: // flip a byte in the fixed part
			pos := int(x>>33) % 1300
			b[pos] ^= byte(x>>8) | 1
		case 1: // truncate
			b = b[:int(x>>33)%len(b)]
		case 2: // overwrite a size field
			off := []int{632, 766, 1218}[int(x>>40)%3]
			b[off] = byte(x >> 16)
			b[off+1] = byte(x >> 24)
		}
		q, err := QuoteToProto(b)
		vp.Emit("mut-parse-err", err)
		if err == nil {
			out, err2 := QuoteToAbiBytes(q)
			vp.Emit("mut-serialise-err", err2)
			vp.Emit("mut-roundtrip", out)
		}
	}
}
