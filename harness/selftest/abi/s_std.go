package abi

import (
	"bytes"
	"crypto/subtle"
	"encoding/binary"
	"encoding/hex"
	"errors"
	"fmt"
	"io"
	"sort"
	"strconv"
	"strings"
	"time"
	"unicode"

	vp "github.com/google/go-tdx-guest/zzvp"
)

// S_std_Library: the library packages whose bodies the engine executes (rather than models),
// on concrete values: package-level tables and variables included.
func S_std_Library() {
	vp.Emit("trimspace", string(bytes.TrimSpace([]byte(" \t ab c\n"))))
	vp.Emit("fields", strings.Join(strings.Fields(" a  b\tc "), "|"))
	vp.Emit("upper", strings.ToUpper("abcXyz09"))
	vp.Emit("equalfold", strings.EqualFold("Intel SGX", "INTEL sgx"))
	vp.Emit("trimleft", strings.TrimLeft("00012", "0"))
	vp.Emit("itoa", strconv.Itoa(-12345))
	n, err := strconv.ParseInt("7fff", 16, 32)
	vp.Emit("parseint", n)
	vp.Emit("parseint-err", err)
	_, err = strconv.ParseUint("zz", 10, 8)
	vp.Emit("parseuint-err", err != nil)
	vp.Emit("quote", strconv.Quote("a\"b"))
	vp.Emit("isupper", unicode.IsUpper('Q'))
	vp.Emit("isspace", unicode.IsSpace(' '))
	vp.Emit("isdigit", unicode.IsDigit('7'))
	vp.Emit("hex", hex.EncodeToString([]byte{0, 1, 0xab, 0xff}))
	hb, herr := hex.DecodeString("0aF1")
	vp.Emit("unhex", hb)
	vp.Emit("unhex-err", herr)
	_, herr = hex.DecodeString("0g")
	vp.Emit("unhex-err2", herr)
	vp.Emit("le16", binary.LittleEndian.Uint16([]byte{0x34, 0x12}))
	vp.Emit("be32", binary.BigEndian.Uint32([]byte{1, 2, 3, 4}))
	vp.Emit("cmp", bytes.Compare([]byte("abc"), []byte("abd")))
	vp.Emit("ctc", subtle.ConstantTimeCompare([]byte("abc"), []byte("abc")))
	xs := []int{5, 2, 9, 1}
	sort.Ints(xs)
	vp.Emit("sorted", []byte{byte(xs[0]), byte(xs[1]), byte(xs[2]), byte(xs[3])})
	t := time.Date(2024, time.February, 29, 13, 14, 15, 16, time.UTC)
	vp.Emit("unix", t.Unix())
	vp.Emit("weekday", int(t.Weekday()))
	vp.Emit("yearday", t.YearDay())
	vp.Emit("after", t.Add(36*time.Hour).After(t))
	u := time.Unix(1700000000, 5).UTC()
	vp.Emit("year", u.Year())
	vp.Emit("month", int(u.Month()))
	vp.Emit("day", u.Day())
	vp.Emit("hour", u.Hour())
	vp.Emit("sub", int64(u.Sub(t)))
	vp.Emit("dur", (90 * time.Minute).String())
	b, rerr := io.ReadAll(bytes.NewReader([]byte("hello")))
	vp.Emit("readall", b)
	vp.Emit("readall-err", rerr)
	_, e2 := bytes.NewReader(nil).ReadByte()
	vp.Emit("eof", e2 == io.EOF)
	vp.Emit("eof-nonnil", e2 != nil)
	j := errors.Join(io.EOF, io.ErrUnexpectedEOF)
	vp.Emit("join-is", errors.Is(j, io.ErrUnexpectedEOF))
	vp.Emit("wrap-is", errors.Is(fmt.Errorf("x: %w", io.EOF), io.EOF))
	var sb strings.Builder
	sb.WriteString("ab")
	sb.WriteByte('c')
	vp.Emit("builder", sb.String())
	var bb bytes.Buffer
	bb.WriteString("xy")
	bb.Write([]byte{'z'})
	vp.Emit("buffer", bb.String())
	vp.Emit("index", strings.Index("chicken", "ken"))
	vp.Emit("lastindex", strings.LastIndex("go gopher", "go"))
	vp.Emit("replace", strings.ReplaceAll("a-b-c", "-", "+"))
	vp.Emit("repeat", strings.Repeat("ab", 3))
	vp.Emit("contains", strings.Contains("Intel SGX PCK Platform CA", "Platform"))
}
