package validate

import (
	ccpb "github.com/google/go-tdx-guest/proto/checkconfig"
	vp "github.com/google/go-tdx-guest/zzvp"
	"github.com/google/go-tdx-guest/zzvp/q"
)

//vp:merge github.com/google/go-tdx-guest/validate.byteCheck
//vp:merge github.com/google/go-tdx-guest/validate.byteCheckRtmr
//vp:merge github.com/google/go-tdx-guest/validate.byteCheckAny
//vp:merge github.com/google/go-tdx-guest/validate.exactByteMatch
//vp:merge github.com/google/go-tdx-guest/validate.minVersionCheck
//vp:merge github.com/google/go-tdx-guest/validate.isSvnHigherOrEqual
//vp:merge github.com/google/go-tdx-guest/validate.validateXfam
//vp:merge github.com/google/go-tdx-guest/validate.validateTdAttributes
//vp:merge github.com/google/go-tdx-guest/validate.lengthCheck
//vp:merge github.com/google/go-tdx-guest/validate.lengthCheckMany
//vp:merge github.com/google/go-tdx-guest/validate.checkOptionsLengths

// polBytes: a policy byte field: nil (absent) or symbolic length 1..size+2.
// (proto3 decodes an absent or empty bytes field as nil.)
func polBytes(name string, size int, present bool) []byte {
	if !present {
		return nil
	}
	n := vp.IntRange(name+"_len", 1, size+2)
	return vp.Bytes(name, n)
}

type h14pol struct {
	p        *ccpb.Policy
	sizes    []int
	fields   [][]byte
	nR, nA   int
	minQe    uint32
	minPce   uint32
	minTee   []byte
}

func h14Policy(hasHeader, hasBody, full bool) h14pol {
	var out h14pol
	p := &ccpb.Policy{}
	if hasHeader {
		out.minQe, out.minPce = vp.U32("minQeSvn"), vp.U32("minPceSvn")
		p.HeaderPolicy = &ccpb.HeaderPolicy{
			MinimumQeSvn:  out.minQe,
			MinimumPceSvn: out.minPce,
			QeVendorId:    polBytes("p_qevendor", 16, vp.Bool("has_qevendor")),
		}
		out.fields = append(out.fields, p.HeaderPolicy.QeVendorId)
		out.sizes = append(out.sizes, 16)
	}
	if hasBody {
		b := &ccpb.TDQuoteBodyPolicy{}
		pres := vp.Choose("present_mask", 2) == 1 // all byte fields present, or all absent
		b.MinimumTeeTcbSvn = polBytes("p_minteetcbsvn", 16, vp.Choose("has_mintee", 2) == 1)
		b.MrSeam = polBytes("p_mrseam", 48, pres)
		b.TdAttributes = polBytes("p_tdattr", 8, pres)
		b.Xfam = polBytes("p_xfam", 8, pres)
		b.MrTd = polBytes("p_mrtd", 48, pres)
		b.MrConfigId = polBytes("p_mrconfigid", 48, pres)
		b.MrOwner = polBytes("p_mrowner", 48, pres)
		b.MrOwnerConfig = polBytes("p_mrownerconfig", 48, pres)
		b.ReportData = polBytes("p_reportdata", 64, pres)
		if full {
			out.nR = vp.Choose("nRtmrs", 6)
		} else {
			out.nR = []int{0, 4, 3}[vp.Choose("nRtmrsQuick", 3)]
		}
		for i := 0; i < out.nR; i++ {
			n := vp.IntRange("p_rtmr_len"+string(rune('0'+i)), 0, 50)
			b.Rtmrs = append(b.Rtmrs, vp.Bytes("p_rtmr"+string(rune('0'+i)), n))
		}
		if full {
			out.nA = vp.Choose("nAnyMrTd", 3)
		} else {
			out.nA = vp.Choose("nAnyMrTdQuick", 2)
		}
		for i := 0; i < out.nA; i++ {
			n := vp.IntRange("p_any_len"+string(rune('0'+i)), 1, 50)
			b.AnyMrTd = append(b.AnyMrTd, vp.Bytes("p_any"+string(rune('0'+i)), n))
		}
		p.TdQuoteBodyPolicy = b
		out.minTee = b.MinimumTeeTcbSvn
		out.fields = append(out.fields, b.MrSeam, b.TdAttributes, b.Xfam, b.MrTd, b.MrConfigId, b.MrOwner, b.MrOwnerConfig, b.ReportData)
		out.sizes = append(out.sizes, 48, 8, 8, 48, 48, 48, 48, 64)
	}
	out.p = p
	return out
}

// malformed: the statement's condition under which conversion must fail.
func malformed(in h14pol) bool {
	bad := vp.Or(in.minQe > 65535, in.minPce > 65535)
	for i, f := range in.fields {
		bad = vp.Or(bad, vp.And(len(f) != 0, len(f) != in.sizes[i]))
	}
	bad = vp.Or(bad, vp.And(len(in.minTee) != 0, len(in.minTee) != 16))
	if in.p.TdQuoteBodyPolicy != nil {
		b := in.p.TdQuoteBodyPolicy
		if in.nR != 0 && in.nR != 4 {
			bad = true
		}
		for i := 0; i < in.nR; i++ {
			bad = vp.Or(bad, vp.And(len(b.Rtmrs[i]) != 0, len(b.Rtmrs[i]) != 48))
		}
		for i := 0; i < in.nA; i++ {
			bad = vp.Or(bad, vp.And(len(b.AnyMrTd[i]) != 0, len(b.AnyMrTd[i]) != 48))
		}
	}
	return bad
}

func h14Run(hasHeader, hasBody, full bool) {
	in := h14Policy(hasHeader, hasBody, full)
	opts, err := PolicyToOptions(in.p)
	bad := malformed(in)
	vp.Reach("converts", err == nil)
	vp.Assert("conversion-fails-iff-malformed", (err != nil) == bad)
	if err != nil {
		return
	}
	// field-by-field: every option equals the policy's literal field
	vp.Assert("svn-minima-copied", vp.And(uint32(opts.HeaderOptions.MinimumQeSvn) == in.minQe, uint32(opts.HeaderOptions.MinimumPceSvn) == in.minPce))
	hp, bp := in.p.GetHeaderPolicy(), in.p.GetTdQuoteBodyPolicy()
	t := &opts.TdQuoteBodyOptions
	same := func(a, b []byte) bool { return vp.And((a == nil) == (b == nil), vp.BytesEq(a, b)) }
	vp.Assert("byte-fields-copied", vp.And(
		same(opts.HeaderOptions.QeVendorID, hp.GetQeVendorId()),
		same(t.MinimumTeeTcbSvn, bp.GetMinimumTeeTcbSvn()),
		same(t.MrSeam, bp.GetMrSeam()), same(t.TdAttributes, bp.GetTdAttributes()), same(t.Xfam, bp.GetXfam()),
		same(t.MrTd, bp.GetMrTd()), same(t.MrConfigID, bp.GetMrConfigId()), same(t.MrOwner, bp.GetMrOwner()),
		same(t.MrOwnerConfig, bp.GetMrOwnerConfig()), same(t.ReportData, bp.GetReportData())))
	vp.Assert("lists-copied", vp.And(len(t.Rtmrs) == in.nR, len(t.AnyMrTd) == in.nA))
	for i := 0; i < in.nR && i < len(t.Rtmrs); i++ {
		vp.Assert("rtmr-copied", vp.BytesEq(t.Rtmrs[i], bp.Rtmrs[i]))
	}
	for i := 0; i < in.nA && i < len(t.AnyMrTd); i++ {
		vp.Assert("anymrtd-copied", vp.BytesEq(t.AnyMrTd[i], bp.AnyMrTd[i]))
	}
	// a policy that converts can not crash validation (implicit obligations)
	quote := q.Valid("q_", q.Shape{AuthLen: 0, Chain: vp.Bytes("chain", 4)})
	verr := TdxQuote(quote, opts)
	vp.Reach("validates", verr == nil)
	// ... and is not partly ignored: with a correctly sized minimum TEE TCB SVN, acceptance implies component-wise >=
	if len(in.minTee) == 16 {
		geq := true
		for i := 0; i < 16; i++ {
			geq = vp.And(geq, quote.TdQuoteBody.TeeTcbSvn[i] >= in.minTee[i])
		}
		vp.Assert("min-tee-tcb-svn-enforced", vp.Implies(verr == nil, geq))
	}
	if hasBody && len(bp.GetMrSeam()) != 0 {
		vp.Assert("mr-seam-enforced", vp.Implies(verr == nil, vp.BytesEq(bp.GetMrSeam(), quote.TdQuoteBody.MrSeam)))
		vp.Assert("report-data-enforced", vp.Implies(verr == nil, vp.BytesEq(bp.GetReportData(), quote.TdQuoteBody.ReportData)))
		vp.Assert("mr-owner-config-enforced", vp.Implies(verr == nil, vp.BytesEq(bp.GetMrOwnerConfig(), quote.TdQuoteBody.MrOwnerConfig)))
		vp.Assert("mr-owner-enforced", vp.Implies(verr == nil, vp.BytesEq(bp.GetMrOwner(), quote.TdQuoteBody.MrOwner)))
		vp.Assert("mr-config-id-enforced", vp.Implies(verr == nil, vp.BytesEq(bp.GetMrConfigId(), quote.TdQuoteBody.MrConfigId)))
		vp.Assert("mr-td-enforced", vp.Implies(verr == nil, vp.BytesEq(bp.GetMrTd(), quote.TdQuoteBody.MrTd)))
		vp.Assert("xfam-enforced", vp.Implies(verr == nil, vp.BytesEq(bp.GetXfam(), quote.TdQuoteBody.Xfam)))
		vp.Assert("td-attributes-enforced", vp.Implies(verr == nil, vp.BytesEq(bp.GetTdAttributes(), quote.TdQuoteBody.TdAttributes)))
	}
	if hasHeader {
		vp.Assert("qe-svn-enforced", vp.Implies(verr == nil, vp.And(
			uint32(uint16(quote.Header.QeSvn[0])|uint16(quote.Header.QeSvn[1])<<8) >= in.minQe,
			uint32(uint16(quote.Header.PceSvn[0])|uint16(quote.Header.PceSvn[1])<<8) >= in.minPce)))
		if len(hp.GetQeVendorId()) != 0 {
			vp.Assert("qe-vendor-enforced", vp.Implies(verr == nil, vp.BytesEq(hp.GetQeVendorId(), quote.Header.QeVendorId)))
		}
	}
}

func H14a_FullPolicy()  { h14Run(true, true, false) }
func H14b_HeaderOnly()  { h14Run(true, false, false) }
func H14c_BodyOnly()    { h14Run(false, true, false) }
func H14d_EmptyPolicy() { h14Run(false, false, false) }

// thorough tier: the full grid of list lengths
func T14a_FullPolicyGrid() { h14Run(true, true, true) }
func T14c_BodyOnlyGrid()   { h14Run(false, true, true) }

// H14e: a nil policy message converts (getters are nil-safe) to empty options.
func H14e_NilPolicy() {
	opts, err := PolicyToOptions(nil)
	vp.Assert("nil-policy-converts", vp.And(err == nil, opts != nil))
}
