package pcs

import (
	"crypto/x509/pkix"
	"encoding/asn1"

	vp "github.com/google/go-tdx-guest/zzvp"
)

// White-box file: calls the unexported extractTcbExtension directly; left out when it is renamed
// or re-shaped (H13a-c cover it through PckCertificateExtensions).

// H13d: n <= 3 TCB elements with symbolic last OID arc and symbolic value: each
// element updates exactly the slot named by its OID and nothing else.
func H13d_SymbolicOidArcs() { h13d(1 + vp.Choose("n", 2)) }

// thorough tier: three elements with symbolic OIDs
func T13e_SymbolicOidArcs3() { h13d(3) }

func h13d(n int) {
	var seq []asn1.RawValue
	arcs := make([]int, n)
	vals := make([]int64, n)
	for i := 0; i < n; i++ {
		arcs[i] = vp.IntRange("arc"+string(rune('0'+i)), 0, 20)
		vals[i] = vp.I64("val" + string(rune('0'+i)))
		vp.Assume(vals[i] >= 0)
		vp.Assume(vals[i] <= 255)
		seq = append(seq, asn1.RawValue{FullBytes: blob(&asn1Ghost{atv: &pkix.AttributeTypeAndValue{Type: sgxOid(2, arcs[i]), Value: vals[i]}})})
	}
	tcb := &PckCertTCB{}
	err := extractTcbExtension(seq, tcb)
	// arc 18 carries an int64 here, which is not an OCTET STRING: an error
	has18 := false
	for i := 0; i < n; i++ {
		has18 = vp.Or(has18, arcs[i] == 18)
	}
	vp.Assert("error-iff-cpusvn-mistyped", (err != nil) == has18)
	if err != nil {
		return
	}
	for slot := 1; slot <= 16; slot++ {
		// the last element naming the slot wins; unnamed slots stay zero
		want := int64(0)
		for i := 0; i < n; i++ {
			want = vp.IteI64(arcs[i] == slot, vals[i], want)
		}
		vp.Assert("slot-holds-the-value-of-its-oid", int64(tcb.CPUSvnComponents[slot-1]) == want)
	}
	wantP := int64(0)
	for i := 0; i < n; i++ {
		wantP = vp.IteI64(arcs[i] == 17, vals[i], wantP)
	}
	vp.Assert("pcesvn-slot", int64(tcb.PCESvn) == wantP)
}

