package pcs

import (
	"crypto/x509"
	"crypto/x509/pkix"
	"encoding/asn1"
	"errors"

	vp "github.com/google/go-tdx-guest/zzvp"
)

//vp:transparent encoding/asn1

// asn1Ghost is what encoding/asn1 finds in a DER blob, as dictated by the harness.
type asn1Ghost struct {
	fail bool
	rest []byte
	seq  []asn1.RawValue
	isSeq bool
	atv  *pkix.AttributeTypeAndValue
	ext  *pkix.Extension
	oct  []byte
	isOct bool
}

var errASN1 = errors.New("asn1: structure error")

// encoding/asn1.Unmarshal decodes DER correctly: it delivers the structure the
// harness attached to the blob, or fails when the blob holds no value of the
// requested Go type.
//
//vp:model encoding/asn1.Unmarshal
func m_asn1Unmarshal(b []byte, val any) ([]byte, error) {
	gv := vp.GhostGet(b, "asn1")
	if gv == nil {
		return nil, errASN1
	}
	g := gv.(*asn1Ghost)
	if g.fail {
		return nil, errASN1
	}
	switch v := val.(type) {
	case *[]asn1.RawValue:
		if !g.isSeq {
			return nil, errASN1
		}
		*v = g.seq
	case *pkix.AttributeTypeAndValue:
		if g.atv == nil {
			return nil, errASN1
		}
		*v = *g.atv
	case *pkix.Extension:
		if g.ext == nil {
			return nil, errASN1
		}
		*v = *g.ext
	case *[]byte:
		if !g.isOct {
			return nil, errASN1
		}
		*v = g.oct
	default:
		return nil, errASN1
	}
	return g.rest, nil
}

var blobSeq int

func blob(g *asn1Ghost) []byte {
	blobSeq++
	b := vp.Bytes("der"+string(rune('a'+blobSeq/26))+string(rune('a'+blobSeq%26)), 3)
	vp.GhostSet(b, "asn1", g)
	return b
}

func sgxOid(arcs ...int) asn1.ObjectIdentifier {
	return asn1.ObjectIdentifier(append([]int{1, 2, 840, 113741, 1, 13, 1}, arcs...))
}

type tcbVals struct {
	comp   [16]int64
	pcesvn int64
	cpusvn []byte
}

// tcbElement i (1..16 component, 17 PCESVN, 18 CPUSVN) as an AttributeTypeAndValue blob.
func tcbElement(i int, v tcbVals) asn1.RawValue {
	var val any
	switch {
	case i <= 16:
		val = v.comp[i-1]
	case i == 17:
		val = v.pcesvn
	default:
		val = v.cpusvn
	}
	return asn1.RawValue{FullBytes: blob(&asn1Ghost{atv: &pkix.AttributeTypeAndValue{Type: sgxOid(2, i), Value: val}})}
}

var perms = [][]int{
	{1, 2, 3, 4, 5, 6, 7, 8, 9, 10, 11, 12, 13, 14, 15, 16, 17, 18},
	{18, 17, 16, 15, 14, 13, 12, 11, 10, 9, 8, 7, 6, 5, 4, 3, 2, 1},
	{2, 1, 4, 3, 6, 5, 8, 7, 10, 9, 12, 11, 14, 13, 16, 15, 18, 17},
	{17, 9, 1, 10, 2, 11, 3, 12, 4, 13, 5, 14, 6, 15, 7, 16, 8, 18},
	seededPerm,
}

func octetExt(oid asn1.ObjectIdentifier, content []byte, nested bool) asn1.RawValue {
	value := content
	if nested {
		// the content is itself a DER OCTET STRING wrapping the value
		value = blob(&asn1Ghost{isOct: true, oct: content})
	}
	return asn1.RawValue{FullBytes: blob(&asn1Ghost{
		atv: &pkix.AttributeTypeAndValue{Type: oid, Value: value},
		ext: &pkix.Extension{Id: oid, Value: value},
	})}
}

type world13 struct {
	cert               *x509.Certificate
	v                  tcbVals
	ppid, pceid, fmspc []byte
}

var subPerms = [][]int{{0, 1, 2, 3}, {3, 2, 1, 0}, {1, 3, 0, 2}, {2, 0, 3, 1}}

// orders of the seven sub-extensions of a platform certificate (0-3 mandatory, 4-6 optional)
var subPerms7 = [][]int{
	{0, 1, 2, 3, 4, 5, 6},
	{0, 1, 2, 4, 3, 5, 6},
	{4, 5, 6, 0, 1, 2, 3},
	{6, 5, 4, 3, 2, 1, 0},
	{0, 4, 1, 5, 2, 6, 3},
	seeded7(),
}

// seeded7: the order in which 1..7 appear in the seeded permutation of 1..18.
func seeded7() []int {
	var out []int
	for _, v := range seededPerm {
		if v <= 7 {
			out = append(out, v-1)
		}
	}
	return out
}

func mkWorld13(tcbPerm []int, subPerm []int, nested bool, extra bool) world13 {
	var w world13
	for i := range w.v.comp {
		w.v.comp[i] = vp.I64("comp" + string(rune('a'+i)))
	}
	w.v.pcesvn = vp.I64("pcesvn")
	w.v.cpusvn = vp.Bytes("cpusvn", vp.IntRange("cpusvn_len", 14, 18))
	w.ppid = vp.Bytes("ppid", vp.IntRange("ppid_len", 15, 17))
	w.pceid = vp.Bytes("pceid", vp.IntRange("pceid_len", 1, 3))
	w.fmspc = vp.Bytes("fmspc", vp.IntRange("fmspc_len", 5, 7))
	var tcbSeq []asn1.RawValue
	for _, i := range tcbPerm {
		tcbSeq = append(tcbSeq, tcbElement(i, w.v))
	}
	tcbInner := asn1.RawValue{FullBytes: blob(&asn1Ghost{isSeq: true, seq: tcbSeq})}
	tcbOidPart := asn1.RawValue{FullBytes: blob(&asn1Ghost{})}
	tcbExt := asn1.RawValue{FullBytes: blob(&asn1Ghost{
		atv:   &pkix.AttributeTypeAndValue{Type: sgxOid(2), Value: int64(0)},
		isSeq: true, seq: []asn1.RawValue{tcbOidPart, tcbInner},
	})}
	subs := []asn1.RawValue{octetExt(sgxOid(1), w.ppid, nested), tcbExt, octetExt(sgxOid(3), w.pceid, nested), octetExt(sgxOid(4), w.fmspc, nested)}
	var sgx []asn1.RawValue
	if extra {
		// platform certificates carry three further sub-extensions (SGX type, platform instance id,
		// configuration); they are ignored wherever they stand among the mandatory four
		subs = append(subs, octetExt(sgxOid(5), vp.Bytes("sgxtype", 1), false), octetExt(sgxOid(6), vp.Bytes("platforminstance", 16), false),
			octetExt(sgxOid(7), vp.Bytes("configuration", 3), false))
		for _, i := range subPerms7[vp.Choose("subOrder7", len(subPerms7))] {
			sgx = append(sgx, subs[i])
		}
	} else {
		for _, i := range subPerm {
			sgx = append(sgx, subs[i])
		}
	}
	sgxBlob := blob(&asn1Ghost{isSeq: true, seq: sgx})
	other := pkix.Extension{Id: asn1.ObjectIdentifier{2, 5, 29, 14}, Value: []byte{1}}
	w.cert = &x509.Certificate{Extensions: []pkix.Extension{other, other, other, {Id: sgxOid(), Value: sgxBlob}, other, other}}
	return w
}

func hexOf(b []byte) string {
	out := make([]byte, 2*len(b))
	for i := 0; i < len(b); i++ {
		hi, lo := b[i]>>4, b[i]&15
		out[2*i] = vp.IteU8(hi < 10, '0'+hi, 'a'+hi-10)
		out[2*i+1] = vp.IteU8(lo < 10, '0'+lo, 'a'+lo-10)
	}
	return string(out)
}

func check13(w world13, res *PckExtensions, err error, nested bool) {
	inRange := vp.And(w.v.pcesvn >= 0, w.v.pcesvn <= 65535, len(w.v.cpusvn) == 16)
	for i := range w.v.comp {
		inRange = vp.And(inRange, w.v.comp[i] >= 0, w.v.comp[i] <= 255)
	}
	sizes := vp.And(len(w.ppid) == 16, len(w.pceid) == 2, len(w.fmspc) == 6)
	vp.Reach("extracts", err == nil)
	vp.Reach("rejects", err != nil)
	vp.Assert("error-iff-a-value-does-not-fit", (err != nil) == !vp.And(inRange, sizes))
	if err != nil {
		return
	}
	vp.Assert("pcesvn", int64(res.TCB.PCESvn) == w.v.pcesvn)
	vp.Assert("components-length", len(res.TCB.CPUSvnComponents) == 16)
	for i := 0; i < 16 && i < len(res.TCB.CPUSvnComponents); i++ {
		vp.Assert("component", int64(res.TCB.CPUSvnComponents[i]) == w.v.comp[i])
	}
	vp.Assert("cpusvn", vp.BytesEq(res.TCB.CPUSvn, w.v.cpusvn))
	vp.Assert("ppid", res.PPID == hexOf(w.ppid))
	vp.Assert("pceid", res.PCEID == hexOf(w.pceid))
	vp.Assert("fmspc", res.FMSPC == hexOf(w.fmspc))
}

func h13(nested, extra bool) {
	tp := perms[vp.Choose("tcbOrder", len(perms))]
	sp := subPerms[vp.Choose("subOrder", len(subPerms))]
	w := mkWorld13(tp, sp, nested, extra)
	res, err := PckCertificateExtensions(w.cert)
	check13(w, res, err, nested)
}

// H13a: all 18 TCB elements and the four sub-extensions in permuted orders, values symbolic.
func H13a_ValuesAnyOrder() { h13(false, false) }

// H13b: octet strings that are themselves DER OCTET STRINGs of the value (tolerated encoding), extra sub-extension.
func H13b_NestedOctetStrings() { h13(true, true) }

// H13c: malformed variants: wrong dynamic types, decode failures, trailing bytes, wrong counts.
func H13c_Malformed() {
	w := mkWorld13(perms[0], subPerms[0], false, false)
	which := vp.Choose("defect", 10)
	sgxBlob := w.cert.Extensions[3].Value
	g := vp.GhostGet(sgxBlob, "asn1").(*asn1Ghost)
	tcbG := vp.GhostGet(g.seq[1].FullBytes, "asn1").(*asn1Ghost)
	innerG := vp.GhostGet(tcbG.seq[1].FullBytes, "asn1").(*asn1Ghost)
	switch which {
	case 0: // a component is not an INTEGER
		eg := vp.GhostGet(innerG.seq[3].FullBytes, "asn1").(*asn1Ghost)
		eg.atv.Value = "text"
	case 1: // CPUSVN is not an OCTET STRING
		eg := vp.GhostGet(innerG.seq[17].FullBytes, "asn1").(*asn1Ghost)
		eg.atv.Value = int64(5)
	case 2: // trailing bytes after the SGX extension sequence
		g.rest = []byte{0}
	case 3: // a TCB element does not decode
		eg := vp.GhostGet(innerG.seq[9].FullBytes, "asn1").(*asn1Ghost)
		eg.fail = true
	case 4: // 17 TCB elements
		innerG.seq = innerG.seq[:17]
	case 5: // fewer than four SGX sub-extensions
		g.seq = g.seq[:3]
	case 6: // the certificate has no SGX extension
		w.cert.Extensions[3].Id = asn1.ObjectIdentifier{2, 5, 29, 15}
	case 7: // a component is a one-byte OCTET STRING instead of an INTEGER
		eg := vp.GhostGet(innerG.seq[4].FullBytes, "asn1").(*asn1Ghost)
		eg.atv.Value = vp.Bytes("component_as_octets", 1)
	case 8: // the PCE SVN is a two-byte OCTET STRING instead of an INTEGER
		eg := vp.GhostGet(innerG.seq[16].FullBytes, "asn1").(*asn1Ghost)
		eg.atv.Value = vp.Bytes("pcesvn_as_octets", 2)
	case 9: // a component is a BOOLEAN
		eg := vp.GhostGet(innerG.seq[0].FullBytes, "asn1").(*asn1Ghost)
		eg.atv.Value = true
	}
	_, err := PckCertificateExtensions(w.cert)
	vp.Assert("malformed-is-an-error", err != nil)
}

// H10g (property C10): pcs.PckCertificateExtensions never panics, whatever the DER decodes to:
// 18 TCB elements of which one (at three positions) carries an arbitrary last OID arc (negative and huge values
// included) and a value of arbitrary dynamic type; octet strings of arbitrary length.
func H10g_PckExtensions_ArbitraryDER() {
	w := mkWorld13(perms[0], subPerms[vp.Choose("subOrder", 2)], vp.Choose("nested", 2) == 1, false)
	sgxBlob := w.cert.Extensions[3].Value
	g := vp.GhostGet(sgxBlob, "asn1").(*asn1Ghost)
	var tcbG *asn1Ghost
	for _, rv := range g.seq {
		eg := vp.GhostGet(rv.FullBytes, "asn1").(*asn1Ghost)
		if eg.isSeq {
			tcbG = eg
		}
	}
	innerG := vp.GhostGet(tcbG.seq[1].FullBytes, "asn1").(*asn1Ghost)
	for k, pos := range []int{[]int{2, 16, 17}[vp.Choose("position", 3)]} {
		eg := vp.GhostGet(innerG.seq[pos].FullBytes, "asn1").(*asn1Ghost)
		arc := vp.Int("anyarc" + string(rune('0'+k)))
		var val any
		switch vp.Choose("valtype"+string(rune('0'+k)), 5) {
		case 0:
			val = vp.I64("anyval" + string(rune('0'+k)))
		case 1:
			val = vp.Bytes("anybytes"+string(rune('0'+k)), vp.IntRange("anybytes_len"+string(rune('0'+k)), 0, 20))
		case 2:
			val = "text"
		case 3:
			val = true
		case 4:
			val = nil
		}
		eg.atv = &pkix.AttributeTypeAndValue{Type: sgxOid(2, arc), Value: val}
	}
	_, err := PckCertificateExtensions(w.cert)
	vp.Reach("returns-error", err != nil)
	vp.Reach("returns-value", err == nil)
}
