package pcs

// seededPerm is rewritten by vcheck from VERIF_SEED before every run.
var seededPerm = []int{12, 10, 1, 17, 3, 16, 11, 4, 6, 18, 15, 7, 8, 9, 5, 2, 14, 13}
