package pcs

import (
	vp "github.com/google/go-tdx-guest/zzvp"
)

// H16p (property C16): extracting the PCK extensions - done by every verification - writes to no
// package-level memory and to nothing reachable from the certificate: two goroutines verifying at
// the same time share nothing writable here. (Spare capacity behind a package-level slice counts.)
func H16p_PckExtensionsWriteNothingShared() {
	w := mkWorld13(perms[vp.Choose("tcbOrder", 2)], subPerms[0], false, vp.Choose("platformCert", 2) == 1)
	vp.FreezeGlobals()
	vp.Freeze(w.cert)
	res, err := PckCertificateExtensions(w.cert)
	vp.Reach("extracts", err == nil)
	_ = res
}
