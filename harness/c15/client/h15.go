package client

import (
	"errors"

	labi "github.com/google/go-tdx-guest/client/linuxabi"
	vp "github.com/google/go-tdx-guest/zzvp"
)

// hDevice is a scripted guest device: it records what it is asked and answers
// with verification inputs.
type hDevice struct {
	reportErr, quoteErr       bool
	reportResult, quoteResult uintptr
	tdReport                  []byte // 1024 bytes the device returns as TD report
	status                    uint64
	outLen                    uint32
	quoteData                 []byte // what the device writes into the quote buffer

	nReport, nQuote int
	seenReportData  [64]byte
	seenTdReport    []byte
	seenInLen       uint32
	seenLength      uint64
	seenVersion     uint64
	opened, closed  int
}

func (d *hDevice) Open(path string) error { d.opened++; return nil }
func (d *hDevice) Close() error           { d.closed++; return nil }

func (d *hDevice) Ioctl(command uintptr, argument any) (uintptr, error) {
	switch req := argument.(type) {
	case *labi.TdxReportReq:
		d.nReport++
		d.seenReportData = req.ReportData
		if d.reportErr {
			return 0, errors.New("report ioctl failed")
		}
		copy(req.TdReport[:], d.tdReport)
		return d.reportResult, nil
	case *labi.TdxQuoteReq:
		d.nQuote++
		hdr := req.Buffer.(*labi.TdxQuoteHdr)
		d.seenTdReport = append([]byte(nil), hdr.Data[:1024]...)
		d.seenInLen, d.seenLength, d.seenVersion = hdr.InLen, req.Length, hdr.Version
		if d.quoteErr {
			return 0, errors.New("quote ioctl failed")
		}
		hdr.Status = d.status
		hdr.OutLen = d.outLen
		copy(hdr.Data[:], d.quoteData)
		return d.quoteResult, nil
	}
	return 0, errors.New("unexpected request")
}

func newDevice() *hDevice {
	return &hDevice{
		reportErr:    vp.Choose("reportErr", 2) == 1,
		quoteErr:     vp.Choose("quoteErr", 2) == 1,
		reportResult: uintptr(vp.U64("reportResult")),
		quoteResult:  uintptr(vp.U64("quoteResult")),
		tdReport:     vp.Bytes("tdReport", 1024),
		status:       vp.U64("status"),
		outLen:       vp.U32("outLen"),
		quoteData:    vp.Bytes("quoteData", 16384),
	}
}

func reportData() ([64]byte, []byte) {
	var rd [64]byte
	src := vp.Bytes("reportData", 64)
	copy(rd[:], src)
	return rd, src
}

func checkDeviceProtocol(d *hDevice, rdSrc, out []byte, err error) {
	j := vp.IntRange("j", 0, 63)
	vp.Assert("report-request-carries-callers-report-data", vp.Implies(d.nReport > 0, d.seenReportData[j] == rdSrc[j]))
	vp.Assert("one-report-request", d.nReport == 1)
	reportOK := vp.And(!d.reportErr, d.reportResult == 0)
	vp.Assert("quote-request-only-after-good-report", (d.nQuote == 1) == reportOK)
	vp.Assert("at-most-one-quote-request", d.nQuote <= 1)
	if d.nQuote == 1 {
		k := vp.IntRange("k", 0, 1023)
		vp.Assert("quote-request-carries-the-td-report", d.seenTdReport[k] == d.tdReport[k])
		vp.Assert("quote-request-header", vp.And(d.seenInLen == 1024, d.seenLength == 16384))
	}
	good := vp.And(reportOK, !d.quoteErr, d.quoteResult == 0, d.status == 0, d.outLen > 0, d.outLen <= 16384)
	vp.Reach("success", vp.And(good, err == nil))
	vp.Reach("device-failure", !good)
	vp.Assert("error-iff-any-bad-device-outcome", (err == nil) == good)
	if err == nil {
		vp.Assert("returns-exactly-outlen-bytes", len(out) == int(d.outLen))
		i := vp.IntRange("i", 0, 16383)
		vp.Assume(i < len(out))
		vp.Assume(i < int(d.outLen))
		vp.Assert("returns-the-bytes-the-device-wrote", out[i] == d.quoteData[i])
	} else {
		vp.Assert("no-data-with-error", len(out) == 0)
	}
}

// H15a: raw quote through a guest device, every device outcome symbolic.
func H15a_RawQuoteViaDevice() {
	d := newDevice()
	rd, rdSrc := reportData()
	out, err := GetRawQuote(d, rd)
	checkDeviceProtocol(d, rdSrc, out, err)
}

// hProvider is a scripted quote provider.
type hProvider struct {
	supported, getErr bool
	quote             []byte
	nGet              int
	seen              [64]byte
	theErr            error
}

func (p *hProvider) IsSupported() error {
	if p.supported {
		return nil
	}
	return errors.New("not supported")
}

func (p *hProvider) GetRawQuote(reportData [64]byte) ([]uint8, error) {
	p.nGet++
	p.seen = reportData
	if p.getErr {
		return p.quote, p.theErr
	}
	return p.quote, nil
}

// the device used by the fall-back path (OpenDevice is modelled below)
var fallback *hDevice
var openFails bool

//vp:model golang.org/x/sys/unix.Open
func m_unixOpen(path string, mode int, perm uint32) (int, error) {
	if openFails {
		return -1, errors.New("ENOENT")
	}
	return 3, nil
}

//vp:model golang.org/x/sys/unix.Close
func m_unixClose(fd int) error { return nil }

//vp:model (*github.com/google/go-tdx-guest/client.LinuxDevice).Ioctl
func m_linuxIoctl(d *LinuxDevice, command uintptr, req any) (uintptr, error) {
	// the real ioctl (unsafe.Pointer into the kernel) is outside the claim: the
	// opened device answers like the scripted one
	return fallback.Ioctl(command, req)
}

// H15b: through a quote provider.
func H15b_RawQuoteViaProvider() {
	p := &hProvider{supported: vp.Choose("supported", 2) == 1, getErr: vp.Choose("getErr", 2) == 1,
		quote: vp.Bytes("pquote", vp.IntRange("pquoteLen", 0, 20000)), theErr: errors.New("provider failed")}
	rd, rdSrc := reportData()
	fallback = newDevice()
	openFails = vp.Choose("openFails", 2) == 1
	out, err := GetRawQuote(p, rd)
	if p.supported {
		vp.Assert("provider-asked-once", p.nGet == 1)
		j := vp.IntRange("j", 0, 63)
		vp.Assert("provider-gets-callers-report-data", p.seen[j] == rdSrc[j])
		vp.Assert("no-device-access-when-supported", vp.And(fallback.nReport == 0, fallback.nQuote == 0))
		vp.Assert("provider-bytes-verbatim", vp.And(len(out) == len(p.quote), vp.SameObject(out, p.quote) || len(out) == 0))
		if p.getErr {
			vp.Assert("provider-error-verbatim", err == p.theErr)
		} else {
			vp.Assert("provider-success", err == nil)
		}
		return
	}
	vp.Assert("provider-not-used-when-unsupported", p.nGet == 0)
	if openFails {
		vp.Assert("open-failure-is-an-error", vp.And(err != nil, len(out) == 0, fallback.nReport == 0))
		return
	}
	checkDeviceProtocol(fallback, rdSrc, out, err)
}

// H15c: unsupported provider types are rejected.
func H15c_UnsupportedType() {
	rd, _ := reportData()
	out, err := GetRawQuote(42, rd)
	vp.Assert("unsupported-type-rejected", vp.And(err != nil, out == nil))
	out2, err2 := GetQuote("x", rd)
	vp.Assert("unsupported-type-rejected-getquote", vp.And(err2 != nil, out2 == nil))
}

// H15f: histories. A raw quote handed to the caller is the caller's: a later fetch through the same
// or another device - successful or not - does not change a byte of it (no buffer shared between calls).
func H15f_EarlierQuoteSurvivesLaterFetch() {
	d := &hDevice{tdReport: vp.Bytes("tdReport", 1024), outLen: vp.U32("outLen"), quoteData: vp.Bytes("quoteData", 16384)}
	vp.Assume(d.outLen > 0)
	vp.Assume(d.outLen <= 64)
	rd, _ := reportData()
	first, err := GetRawQuote(d, rd)
	vp.Assert("first-fetch-succeeds", err == nil)
	if err != nil {
		return
	}
	saved := append([]byte(nil), first...)
	// second fetch: other data, any outcome
	d2 := &hDevice{reportErr: vp.Choose("reportErr2", 2) == 1, quoteErr: vp.Choose("quoteErr2", 2) == 1, tdReport: vp.Bytes("tdReport2", 1024),
		status: vp.U64("status2"), outLen: vp.U32("outLen2"), quoteData: vp.Bytes("quoteData2", 16384)}
	var rd2 [64]byte
	copy(rd2[:], vp.Bytes("reportData2", 64))
	_, _ = GetRawQuote(d2, rd2)
	vp.Assert("earlier-quote-unchanged-by-a-later-fetch", vp.BytesEq(first, saved))
}
