package client

import (
	"errors"

	vp "github.com/google/go-tdx-guest/zzvp"
)

var parsedArg []byte
var parseFails bool
var parseErr = errors.New("parse failed")
var parseResult = &struct{ tag int }{7}

// abi.QuoteToProto is C09's subject; here it is a stub that records its argument.
//
//vp:model github.com/google/go-tdx-guest/abi.QuoteToProto
func m_QuoteToProto(b []uint8) (any, error) {
	parsedArg = b
	if parseFails {
		return nil, parseErr
	}
	return parseResult, nil
}

// H15d: the parsed form equals parsing the raw form.
func H15d_GetQuoteParsesTheRawBytes() {
	p := &hProvider{supported: true, getErr: vp.Choose("getErr", 2) == 1,
		quote: vp.Bytes("pquote", vp.IntRange("pquoteLen", 0, 20000)), theErr: errors.New("provider failed")}
	parseFails = vp.Choose("parseFails", 2) == 1
	rd, _ := reportData()
	res, err := GetQuote(p, rd)
	if p.getErr {
		vp.Assert("fetch-error-propagates", vp.And(err == p.theErr, res == nil, parsedArg == nil))
		return
	}
	vp.Assert("parses-exactly-the-fetched-bytes", vp.And(vp.SameObject(parsedArg, p.quote) || len(p.quote) == 0, len(parsedArg) == len(p.quote)))
	if parseFails {
		vp.Assert("parse-error-propagates", vp.And(err == parseErr, res == nil))
	} else {
		vp.Assert("parse-result-returned", vp.And(err == nil, res == any(parseResult)))
	}
}
