package verify

import (
	"crypto/x509"
	"math/big"

	vp "github.com/google/go-tdx-guest/zzvp"
)

func notListed(crl *x509.RevocationList, serial *big.Int) bool {
	ok := true
	for _, e := range crl.RevokedCertificates {
		ok = vp.And(ok, serialOf(e.SerialNumber) != serialOf(serial))
	}
	return ok
}

func crlAuthentic(crl *x509.RevocationList, issuer *x509.Certificate) bool {
	return vp.And(crl.Issuer.SerialNumber == issuer.Subject.SerialNumber, vp.UFBool("CrlSigBy", vp.GhostGet(crl, "id").(uint64), keyID(issuer)))
}

func h05(nDist, nRev int) { h05u(nDist, nRev, false) }

// used: the options value has verified the quote before, with collateral and without revocation
// checking (whatever the verdict was); nothing left in it may stand in for the CRL checks.
func h05u(nDist, nRev int, used bool) {
	w := mkCollateralWorld(0, 1, 0, 1, nDist, nRev)
	quote := mkQuote(w.pki, 0)
	opts := &Options{GetCollateral: true, CheckRevocations: true, Getter: w.getter, Now: symTimeSet("t")}
	if used {
		opts.CheckRevocations = false
		_ = TdxQuote(quote, opts)
		opts.CheckRevocations = true
	}
	err := TdxQuote(quote, opts)
	ok := err == nil
	if nDist > 0 {
		vp.Reach("accept", ok)
		if nRev > 0 {
			vp.Reach("reject-because-leaf-revoked", vp.And(!ok, !notListed(w.pckCrl.crl, w.leaf.SerialNumber)))
		}
	}
	vp.Reach("reject", !ok)
	if nDist == 0 {
		vp.Assert("no-root-crl-distribution-point-rejected", !ok)
		return
	}
	// PCK CRL: obtained, authentic under the chain's intermediate CA (the issuer of the leaf), leaf not listed
	pr := w.pckCrl
	vp.Assert("pck-crl-obtained", vp.Implies(ok, vp.And(!pr.resp.fail, !vp.GhostGet(pr.resp.body, "crl").(*crlGhost).fail)))
	vp.Assert("pck-crl-signed-by-the-intermediate-ca", vp.Implies(ok, crlAuthentic(pr.crl, w.inter)))
	vp.Assert("pck-crl-issuer-is-the-leafs-issuer", vp.Implies(ok, pr.crl.Issuer.SerialNumber == w.leaf.Issuer.SerialNumber))
	vp.Assert("leaf-not-revoked", vp.Implies(ok, notListed(pr.crl, w.leaf.SerialNumber)))
	// Root CA CRL: the first distribution point that answers and parses
	someOK := false
	earlierOK := false
	for i := 0; i < nDist; i++ {
		d := w.rootCrls[i]
		thisOK := vp.And(!d.resp.fail, !vp.GhostGet(d.resp.body, "crl").(*crlGhost).fail)
		used := vp.And(thisOK, !earlierOK)
		someOK = vp.Or(someOK, thisOK)
		earlierOK = vp.Or(earlierOK, thisOK)
		vp.Assert("root-crl-signed-by-the-chain-root", vp.Implies(vp.And(ok, used), crlAuthentic(d.crl, w.root)))
		vp.Assert("root-crl-authentic-for-the-collateral-issuer-roots", vp.Implies(vp.And(ok, used),
			vp.And(crlAuthentic(d.crl, w.tcbDoc.chain.root), crlAuthentic(d.crl, w.qeDoc.chain.root))))
		vp.Assert("intermediate-ca-not-revoked", vp.Implies(vp.And(ok, used), notListed(d.crl, w.inter.SerialNumber)))
		vp.Assert("tcbinfo-signer-not-revoked", vp.Implies(vp.And(ok, used), notListed(d.crl, w.tcbDoc.chain.signer.SerialNumber)))
		vp.Assert("qeidentity-signer-not-revoked", vp.Implies(vp.And(ok, used), notListed(d.crl, w.qeDoc.chain.signer.SerialNumber)))
	}
	vp.Assert("root-crl-obtained", vp.Implies(ok, someOK))
}

func H05a_1dist_1rev() { h05(1, 1) }
func H05b_2dist_0rev() { h05(2, 0) }

// two revoked entries in arbitrary order (a look-up that assumes sorted serials misses one of them)
func H05j_1dist_2rev() { h05(1, 2) }
func H05c_0dist()      { h05(0, 0) }
func T05d_3dist_3rev() { h05(3, 3) }
func T05e_2dist_2rev() { h05(2, 2) }

// H05f: asking for revocation checks without collateral fetching always fails.
func H05f_RevocationWithoutCollateral() {
	w := mkCollateralWorld(0, 1, 0, 1, 1, 0)
	quote := mkQuote(w.pki, 0)
	err := TdxQuote(quote, &Options{GetCollateral: false, CheckRevocations: true, Getter: w.getter, Now: symTimeSet("t")})
	vp.Assert("revocation-without-collateral-fails", err != nil)
	vp.Assert("and-fetches-nothing", len(w.getter.urls) == 0)
}

// H05g: the CRL conditions on an options value that was used before.
func H05g_ReusedOptions_1dist_1rev() { h05u(1, 1, true) }

// H05h: an options value that fetched collateral before and is then switched to "revocation
// checks without collateral" fails like a fresh one, and fetches nothing.
func H05h_ReusedOptions_RevocationWithoutCollateral() {
	w := mkCollateralWorld(0, 1, 0, 1, 1, 0)
	quote := mkQuote(w.pki, 0)
	opts := &Options{GetCollateral: true, CheckRevocations: vp.Choose("firstCheckRevocations", 2) == 1, Getter: w.getter, Now: symTimeSet("t")}
	err1 := TdxQuote(quote, opts)
	vp.Reach("first-use-accepted", err1 == nil)
	n := len(w.getter.urls)
	opts.GetCollateral, opts.CheckRevocations = false, true
	err := TdxQuote(quote, opts)
	vp.Assert("revocation-without-collateral-fails-on-a-used-options-value", err != nil)
	vp.Assert("and-fetches-nothing", len(w.getter.urls) == n)
}

// thorough tier: the CRL conditions on a used options value, two distribution points and revoked entries
func T05i_ReusedOptions_2dist_2rev() { h05u(2, 2, true) }
