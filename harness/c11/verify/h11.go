package verify

import (
	"github.com/google/go-tdx-guest/pcs"
	"crypto/x509"
	"time"

	vp "github.com/google/go-tdx-guest/zzvp"
)

// crlHonest: a CRL genuinely issued by the CA (name, signature, and the CA may sign CRLs).
func crlHonest(crl *x509.RevocationList, issuer *x509.Certificate) bool {
	return vp.And(crlAuthentic(crl, issuer), vp.UFBool("CrlIssuerOK", vp.GhostGet(crl, "id").(uint64), certID(issuer)))
}

func linkOK(c, parent *x509.Certificate) bool {
	return vp.And(c.Issuer.SerialNumber == parent.Subject.SerialNumber,
		vp.UFBool("SigBy", certID(c), keyID(parent)), vp.UFBool("IssuerOK", certID(c), certID(parent)))
}

// honestIssuerChain: signer 'Intel SGX TCB Signing' issued by a self-signed root that is the trusted root.
func honestIssuerChain(w *collateralWorld, ic *issuerChain, t time.Time) bool {
	s, r := ic.signer, ic.root
	conf := w.configuredRoots()[0]
	return vp.And(wellFormedAs(r, "Intel SGX Root CA"), wellFormedAs(s, "Intel SGX TCB Signing"), linkOK(r, r), linkOK(s, r),
		keyID(r) == keyID(conf), r.Subject.SerialNumber == conf.Subject.SerialNumber,
		inWindow(s, t), inWindow(r, t), inWindow(conf, t), vp.UFBool("PathOther", certID(s), uint64(0), certID(conf)))
}

func h11(level int, authLen int, trailingNul, extra bool) { h11u(level, authLen, trailingNul, extra, false) }

// used: the options value carries arbitrary private left-overs of earlier verifications (another
// platform's chain, collateral and PCK extensions); an honest quote is accepted all the same.
func h11u(level int, authLen int, trailingNul, extra, used bool) {
	nDist := 0
	if level == 2 {
		nDist = 2
	}
	w := mkCollateralWorld(0, 2, 1, 2, nDist, 1)
	if trailingNul {
		w.chainBytes = pemChainOf(w.pki, []byte{0})
	}
	quote := mkQuote(w.pki, authLen)
	if authLen == 0 && vp.Choose("emptyAuthDataIsNil", 2) == 1 {
		// a message that went through protobuf decoding carries empty byte fields as nil
		quote.SignedData.CertificationData.QeReportCertificationData.QeAuthData.Data = nil
	}
	if extra {
		quote.ExtraBytes = vp.Bytes("extra", vp.IntRange("extra_len", 1, 4096))
	}
	now := symTimeSet("t")
	t := now.PckCertChain
	conf := w.configuredRoots()[0]
	// --- the honest world ---
	sigOK, bindOK, qeSigOK := links01(quote, w.leaf)
	honest := vp.And(sigOK, bindOK, qeSigOK,
		wellFormedAs(w.leaf, "Intel SGX PCK Certificate"), wellFormedAs(w.inter, "Intel SGX PCK Platform CA"), wellFormedAs(w.root, "Intel SGX Root CA"),
		linkOK(w.root, w.root), linkOK(w.inter, w.root), linkOK(w.leaf, w.inter),
		// the chain's root is the trusted root
		keyID(conf) == keyID(w.root), conf.Subject.SerialNumber == w.root.Subject.SerialNumber,
		inWindow(w.leaf, t), inWindow(w.inter, t), inWindow(w.root, t), inWindow(conf, t),
		vp.UFBool("PathOther", certID(w.leaf), certID(w.inter), certID(conf)),
		// Intel marks the SGX extension non-critical
		len(w.leaf.UnhandledCriticalExtensions) == 0)
	if level >= 1 {
		tt, tq := now.TcbInfo, now.QeIdentity
		w4 := world04{body: quote.TdQuoteBody, ext: w.exts, info: *w.signedTcb, k: 2, m: 1, l: 1}
		accept4, _, _, _ := w4.spec04(16)
		report := quote.SignedData.CertificationData.QeReportCertificationData.QeReport
		_, _, _, tsig := docAuthentic(w, w.tcbDoc, tt)
		_, _, _, qsig := docAuthentic(w, w.qeDoc, tq)
		honest = vp.And(honest,
			w.leaf.Issuer.CommonName == "Intel SGX PCK Platform CA",
			!w.tcbDoc.resp.fail, !w.qeDoc.resp.fail,
			w.signedTcb.ID == "TDX", w.signedTcb.Version == 3, w.signedQe.ID == "TD_QE", w.signedQe.Version == 2,
			honestIssuerChain(w, w.tcbDoc.chain, tt), honestIssuerChain(w, w.qeDoc.chain, tq),
			tsig, qsig, len(w.tcbDoc.sig) == 64, len(w.qeDoc.sig) == 64,
			!tt.After(w.signedTcb.NextUpdate), !tq.After(w.signedQe.NextUpdate),
			accept4, spec07(report, w.signedQe))
	}
	if level == 2 {
		tp, tr := now.PckCrl, now.RootCaCrl
		pc := w.pckCrl
		honest = vp.And(honest, !pc.resp.fail, !vp.GhostGet(pc.resp.body, "crl").(*crlGhost).fail,
			crlHonest(pc.crl, w.inter), notListed(pc.crl, w.leaf.SerialNumber), !tp.After(pc.crl.NextUpdate),
			!tp.After(w.pckCrlHdr.signer.NotAfter), !tp.After(w.pckCrlHdr.root.NotAfter))
		// some distribution point answers; the first one that does serves the genuine Root CA CRL
		earlier := false
		some := false
		for i := 0; i < nDist; i++ {
			d := w.rootCrls[i]
			thisOK := vp.And(!d.resp.fail, !vp.GhostGet(d.resp.body, "crl").(*crlGhost).fail)
			used := vp.And(thisOK, !earlier)
			honest = vp.And(honest, vp.Implies(used, vp.And(
				crlHonest(d.crl, w.root), crlHonest(d.crl, w.tcbDoc.chain.root), crlHonest(d.crl, w.qeDoc.chain.root),
				notListed(d.crl, w.inter.SerialNumber), notListed(d.crl, w.tcbDoc.chain.signer.SerialNumber), notListed(d.crl, w.qeDoc.chain.signer.SerialNumber),
				!tr.After(d.crl.NextUpdate))))
			earlier = vp.Or(earlier, thisOK)
			some = vp.Or(some, thisOK)
		}
		honest = vp.And(honest, some)
	}
	vp.Assume(honest)
	opts := &Options{GetCollateral: level >= 1, CheckRevocations: level == 2, Getter: w.getter, Now: now}
	if used {
		other := mkCert("stale")
		opts.chain = &PCKCertificateChain{PCKCertificate: other, RootCertificate: other, IntermediateCertificate: other}
		opts.collateral = &Collateral{TcbInfoBody: []byte{9}, EnclaveIdentityBody: []byte{9}}
		opts.pckCertExtensions = &pcs.PckExtensions{FMSPC: "000000000000", PCEID: "0000"}
	}
	err := TdxQuote(quote, opts)
	vp.Reach("honest-world-exists", true)
	vp.Assert("honest-in-date-quote-is-accepted", err == nil)
}

func pemChainOf(w *pki, tail []byte) []byte {
	return pemChain("chainT", blocksOf(w), tail)
}

func H11a_base_auth32()          { h11(0, 32, false, false) }
func H11b_base_auth0_nul_extra() { h11(0, 0, true, true) }
func H11g_base_used_options()    { h11u(0, 32, false, false, true) }
func H11h_collateral_used_options() { h11u(1, 32, false, false, true) }
func H11c_collateral_auth64()    { h11(1, 64, false, true) }
func H11d_revocation_auth32_nul() { h11(2, 32, true, false) }
func T11e_collateral_auth200()   { h11(1, 200, true, true) }
func T11f_revocation_auth1()     { h11(2, 1, false, true) }

// thorough tier: used options value at the revocation level
func T11i_revocation_used_options() { h11u(2, 32, false, false, true) }
