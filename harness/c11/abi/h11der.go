package abi

import (
	"math/big"

	pb "github.com/google/go-tdx-guest/proto/tdx"
	vp "github.com/google/go-tdx-guest/zzvp"
	"github.com/google/go-tdx-guest/zzvp/q"
)

// H11e: abi.SignatureToDER is the exact DER encoding of SEQUENCE { INTEGER r, INTEGER s } for every
// 64-byte r||s - minimal integers included, which crypto/ecdsa and crypto/x509 insist on: an honest
// signature whose r or s starts with zero octets, or has its top bit set, must still verify.
// golang.org/x/crypto/cryptobyte is executed for real; *big.Int carries its magnitude as ghost bytes.
//
//vp:transparent golang.org/x/crypto/cryptobyte
//vp:transparent golang.org/x/crypto/cryptobyte/asn1

// stripZeros: the big-endian magnitude of b without leading zero octets.
func stripZeros(b []byte) []byte {
	i := 0
	for i < len(b) && b[i] == 0 {
		i++
	}
	return b[i:]
}

//vp:model (*math/big.Int).SetBytes
func m_SetBytes(z *big.Int, buf []byte) *big.Int {
	vp.GhostSet(z, "mag", append([]byte(nil), stripZeros(buf)...))
	return z
}

func magOf(z *big.Int) []byte {
	m, _ := vp.GhostGet(z, "mag").([]byte)
	return m
}

//vp:model (*math/big.Int).Sign
func m_Sign(z *big.Int) int {
	if len(magOf(z)) == 0 {
		return 0
	}
	return 1
}

//vp:model (*math/big.Int).Bytes
func m_Bytes(z *big.Int) []byte { return append([]byte(nil), magOf(z)...) }

//vp:model (*math/big.Int).BitLen
func m_BitLen(z *big.Int) int {
	m := magOf(z)
	if len(m) == 0 {
		return 0
	}
	n := 8 * (len(m) - 1)
	for v := m[0]; v != 0; v >>= 1 {
		n++
	}
	return n
}

// derInteger: the specification - DER INTEGER of an unsigned big-endian value.
func derInteger(v []byte) []byte {
	m := stripZeros(v)
	var body []byte
	if len(m) == 0 || m[0]&0x80 != 0 {
		body = append(body, 0)
	}
	body = append(body, m...)
	return append([]byte{0x02, byte(len(body))}, body...)
}

func H11e_SignatureToDER() {
	vp.Unwind(40)
	x := vp.Bytes("rs", 64)
	got, err := SignatureToDER(x)
	vp.Assert("no-error-for-64-bytes", err == nil)
	r, s := derInteger(x[0:32]), derInteger(x[32:64])
	want := append([]byte{0x30, byte(len(r) + len(s))}, r...)
	want = append(want, s...)
	vp.Reach("leading-zero-octet", vp.And(x[0] == 0, x[1] < 0x80))
	vp.Reach("top-bit-set", x[32] >= 0x80)
	vp.Reach("zero-integer", len(r) == 3)
	vp.Assert("exact-minimal-der", vp.BytesEq(got, want))
}

// H11f: other lengths are an error, never a panic.
func H11f_SignatureToDER_WrongLength() {
	x := vp.Bytes("rs", vp.IntRange("len", 0, 130))
	vp.Assume(len(x) != 64)
	_, err := SignatureToDER(x)
	vp.Assert("wrong-length-is-an-error", err != nil)
}

// H11j: the raw form of an honestly produced quote - QE authentication data of any length the
// 2-byte size field allows, the largest ones included, optional bytes after the signed data -
// is accepted by the parser (what RawTdxQuote does first) and parses back to the same signed regions.
func H11j_RawFormOfHonestQuoteParses() {
	n := []int{0, 1, 32, 65533, 65534, 65535}[vp.Choose("authLen", 6)]
	chain := vp.Bytes("chain", 10)
	sh := q.Shape{AuthLen: n, Chain: chain}
	if vp.Choose("trailingBytes", 2) == 1 {
		sh.Extra = vp.Bytes("extra", 5)
	}
	m := q.Valid("q_", sh)
	m.SignedDataSize = uint32(590 + n + len(chain))
	m.SignedData.CertificationData.Size = uint32(590 + n + len(chain) - 134)
	raw, err := QuoteToAbiBytes(m)
	vp.Assert("honest-message-serialises", err == nil)
	if err != nil {
		return
	}
	res, err := QuoteToProto(raw)
	vp.Assert("raw-form-of-an-honest-quote-parses", err == nil)
	if err != nil {
		return
	}
	p := res.(*pb.QuoteV4)
	got := p.SignedData.CertificationData.QeReportCertificationData.QeAuthData.Data
	vp.Assert("auth-data-length-survives", len(got) == n)
	if n > 0 {
		i := vp.IntRange("i", 0, 65534)
		vp.Assume(i < n)
		vp.Assert("auth-data-survives", got[i] == m.SignedData.CertificationData.QeReportCertificationData.QeAuthData.Data[i])
	}
}
