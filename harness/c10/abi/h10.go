package abi

import (
	pb "github.com/google/go-tdx-guest/proto/tdx"
	vp "github.com/google/go-tdx-guest/zzvp"
	"github.com/google/go-tdx-guest/zzvp/q"
)

//vp:merge github.com/google/go-tdx-guest/abi.CheckQuoteV4
//vp:merge github.com/google/go-tdx-guest/abi.checkHeader
//vp:merge github.com/google/go-tdx-guest/abi.checkTDQuoteBody
//vp:merge github.com/google/go-tdx-guest/abi.checkQeReport
//vp:merge github.com/google/go-tdx-guest/abi.checkQeAuthData
//vp:merge github.com/google/go-tdx-guest/abi.checkPCKCertificateChain
//vp:merge github.com/google/go-tdx-guest/abi.checkQeReportCertificationData
//vp:merge github.com/google/go-tdx-guest/abi.checkCertificationData
//vp:merge github.com/google/go-tdx-guest/abi.checkEcdsa256BitQuoteV4AuthData

// H10a: abi.QuoteToProto on an arbitrary byte string of symbolic length.
// Every implicit obligation (slice bounds, index, nil dereference) is a query.
func H10a_QuoteToProto_AnyBytes() {
	L := vp.IntRange("L", 0, 1<<20)
	b := vp.Bytes("b", L)
	quote, err := QuoteToProto(b)
	vp.Reach("accept", err == nil)
	vp.Reach("reject", err != nil)
	_ = quote
}

// H10b: serialisation / structural check of a structurally arbitrary message.
func H10b_Serialise_AnyMessage() {
	nilWhich := vp.Choose("nilWhich", 9)
	nR := 4
	if nilWhich != 2 {
		nR = vp.Choose("nRtmrs", 6)
	}
	quote := q.Arbitrary("q_", nilWhich, nR, 70000)
	err := CheckQuoteV4(quote)
	vp.Reach("valid", err == nil)
	out, err2 := QuoteToAbiBytes(quote)
	vp.Assert("serialise-fails-iff-invalid", (err2 != nil) == (err != nil))
	vp.Assert("result-or-error", (out == nil) == (err2 != nil))
	_, _ = HeaderToAbiBytes(quote.GetHeader())
	_, _ = TdQuoteBodyToAbiBytes(quote.GetTdQuoteBody())
	_, _ = EnclaveReportToAbiBytes(quote.GetSignedData().GetCertificationData().GetQeReportCertificationData().GetQeReport())
}

// H10c: nil and typed-nil arguments.
func H10c_NilArguments() {
	var nq *pb.QuoteV4
	_, e1 := QuoteToAbiBytes(nq)
	_, e2 := QuoteToAbiBytes(nil)
	_, e3 := QuoteToAbiBytes(7)
	e4 := CheckQuoteV4(nil)
	_, e5 := HeaderToAbiBytes(nil)
	_, e6 := TdQuoteBodyToAbiBytes(nil)
	_, e7 := EnclaveReportToAbiBytes(nil)
	_, e8 := SignatureToDER(nil)
	vp.Assert("nil-arguments-are-errors", vp.And(e1 != nil, e2 != nil, e3 != nil, e4 != nil, e5 != nil, e6 != nil, e7 != nil, e8 != nil))
}
