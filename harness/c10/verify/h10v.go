package verify

import (
	"crypto/x509"
	"encoding/pem"

	pb "github.com/google/go-tdx-guest/proto/tdx"
	vp "github.com/google/go-tdx-guest/zzvp"
	"github.com/google/go-tdx-guest/zzvp/q"
)

//vp:merge github.com/google/go-tdx-guest/abi.CheckQuoteV4
//vp:merge github.com/google/go-tdx-guest/abi.checkHeader
//vp:merge github.com/google/go-tdx-guest/abi.checkTDQuoteBody
//vp:merge github.com/google/go-tdx-guest/abi.checkQeReport
//vp:merge github.com/google/go-tdx-guest/abi.checkQeAuthData
//vp:merge github.com/google/go-tdx-guest/abi.checkPCKCertificateChain
//vp:merge github.com/google/go-tdx-guest/abi.checkQeReportCertificationData
//vp:merge github.com/google/go-tdx-guest/abi.checkCertificationData
//vp:merge github.com/google/go-tdx-guest/abi.checkEcdsa256BitQuoteV4AuthData

// H10h: verify.TdxQuote / ExtractChainFromQuote on a structurally arbitrary message
// (absent sub-messages, fields of any length, any number of RTMRs), every option combination.
func H10h_Verify_AnyMessage() {
	nilWhich := vp.Choose("nilWhich", 9)
	nR := 4
	if nilWhich != 2 {
		nR = vp.Choose("nRtmrs", 3) + 3
	}
	quote := q.Arbitrary("q_", nilWhich, nR, 100)
	opts := &Options{GetCollateral: vp.Choose("getCollateral", 2) == 1, CheckRevocations: vp.Choose("checkRevocations", 2) == 1, Now: symTimeSet("t")}
	trustedRootCertificate = mkCert("embedded")
	err := TdxQuote(quote, opts)
	vp.Reach("reject", err != nil)
	_, _ = ExtractChainFromQuote(quote)
}

// H10i: nil / typed-nil / foreign arguments.
func H10i_Verify_NilArguments() {
	var nq *pb.QuoteV4
	e1 := TdxQuote(nq, &Options{})
	e2 := TdxQuote(nil, &Options{})
	e3 := TdxQuote(&pb.QuoteV4{}, nil)
	e4 := TdxQuote(&pb.QuoteV4{}, &Options{})
	e5 := TdxQuote("text", &Options{})
	_, e6 := ExtractChainFromQuote(nq)
	_, e7 := ExtractChainFromQuote(nil)
	_, e8 := ExtractChainFromQuote(&pb.QuoteV4{})
	e9 := RawTdxQuote(nil, &Options{})
	vp.Assert("degenerate-arguments-are-errors", vp.And(e1 != nil, e2 != nil, e3 != nil, e4 != nil, e5 != nil, e6 != nil, e7 != nil, e8 != nil, e9 != nil))
}

// H10j: a structurally valid quote whose chain, certificates and collateral are arbitrary:
// every stub answers arbitrarily (parse failures, nil public keys, missing extensions, headers of any shape).
func H10j_Verify_ArbitraryStubAnswers() {
	w := mkCollateralWorld(0, 1, 1, 1, 1, 1)
	// certificates whose public key is absent or of another type
	switch vp.Choose("leafKey", 3) {
	case 1:
		w.leaf.PublicKey = nil
	case 2:
		w.leaf.PublicKey = "not a key"
	}
	// the chain blob: any of the three DER blobs may fail to parse, block types arbitrary
	certs := []*x509.Certificate{w.leaf, w.inter, w.root}
	names := []string{"leaf", "inter", "root"}
	var blocks []*pem.Block
	for i := 0; i < 3; i++ {
		blocks = append(blocks, &pem.Block{Type: vp.Atom("blocktype" + names[i]), Bytes: derOf(names[i]+"X", certs[i], vp.Bool(names[i]+"_parse_fails"))})
	}
	w.chainBytes = pemChain("chainX", blocks, vp.Bytes("tail", vp.IntRange("tail_len", 0, 2)))
	if vp.Choose("extensionsFail", 2) == 1 {
		vp.GhostSet(w.leaf, "sgx-extensions", &extGhost{fail: true})
	}
	// component vectors of unexpected length in the served TCB info
	if vp.Choose("shortVectors", 2) == 1 {
		w.signedTcb.TcbLevels[0].Tcb.TdxTcbcomponents = w.signedTcb.TcbLevels[0].Tcb.TdxTcbcomponents[:1]
		w.signedTcb.TcbLevels[0].Tcb.SgxTcbcomponents = nil
	}
	// identity fields of unexpected length
	w.signedQe.MiscselectMask.Bytes = vp.Bytes("mm", vp.IntRange("mm_len", 0, 6))
	w.signedQe.AttributesMask.Bytes = vp.Bytes("am", vp.IntRange("am_len", 0, 20))
	w.signedTcb.TdxModule.AttributesMask.Bytes = vp.Bytes("tm", vp.IntRange("tm_len", 0, 10))
	quote := mkQuote(w.pki, 0)
	coll := vp.Choose("getCollateral", 2) == 1
	err := TdxQuote(quote, &Options{GetCollateral: coll, CheckRevocations: coll && vp.Choose("checkRevocations", 2) == 1, Getter: w.getter, Now: symTimeSet("t")})
	vp.Reach("reject", err != nil)
}

// H10k: SupportedTcbLevelsFromCollateral - the API that reports the matching TCB levels from the
// collateral an options value holds after an accepted verification - on a structurally arbitrary
// message (absent TD body, TEE_TCB_SVN of any length, absent QE report).
func H10k_SupportedTcbLevels_AnyMessage() {
	w := mkCollateralWorld(0, 1, 0, 1, 0, 0)
	good := mkQuote(w.pki, 0)
	opts := &Options{GetCollateral: true, Getter: w.getter, Now: symTimeSet("t")}
	if TdxQuote(good, opts) != nil {
		return
	}
	vp.Reach("options-hold-verified-collateral", true)
	msg := q.Arbitrary("m_", vp.Choose("nilWhich", 9), 4, 100)
	_, _, e1 := SupportedTcbLevelsFromCollateral(msg, opts)
	vp.Reach("levels-reported", e1 == nil)
	vp.Reach("levels-not-reported", e1 != nil)
}

// H10l: the same API on options without collateral and on nil arguments.
func H10l_SupportedTcbLevels_NilArguments() {
	msg := q.Arbitrary("m_", vp.Choose("nilWhich", 9), 4, 100)
	_, _, e2 := SupportedTcbLevelsFromCollateral(msg, &Options{})
	_, _, e4 := SupportedTcbLevelsFromCollateral(nil, &Options{})
	_, _, e5 := SupportedTcbLevelsFromCollateral(msg, nil)
	var nq *pb.QuoteV4
	_, _, e6 := SupportedTcbLevelsFromCollateral(nq, &Options{})
	vp.Assert("no-collateral-or-no-message-is-an-error", vp.And(e2 != nil, e4 != nil, e5 != nil, e6 != nil))
}
