package validate

import (
	vp "github.com/google/go-tdx-guest/zzvp"
	"github.com/google/go-tdx-guest/zzvp/q"
)

//vp:merge github.com/google/go-tdx-guest/abi.CheckQuoteV4
//vp:merge github.com/google/go-tdx-guest/abi.checkHeader
//vp:merge github.com/google/go-tdx-guest/abi.checkTDQuoteBody
//vp:merge github.com/google/go-tdx-guest/abi.checkQeReport
//vp:merge github.com/google/go-tdx-guest/abi.checkQeAuthData
//vp:merge github.com/google/go-tdx-guest/abi.checkPCKCertificateChain
//vp:merge github.com/google/go-tdx-guest/abi.checkQeReportCertificationData
//vp:merge github.com/google/go-tdx-guest/abi.checkCertificationData
//vp:merge github.com/google/go-tdx-guest/abi.checkEcdsa256BitQuoteV4AuthData
//vp:merge github.com/google/go-tdx-guest/validate.byteCheck
//vp:merge github.com/google/go-tdx-guest/validate.byteCheckRtmr
//vp:merge github.com/google/go-tdx-guest/validate.byteCheckAny
//vp:merge github.com/google/go-tdx-guest/validate.exactByteMatch
//vp:merge github.com/google/go-tdx-guest/validate.minVersionCheck
//vp:merge github.com/google/go-tdx-guest/validate.isSvnHigherOrEqual
//vp:merge github.com/google/go-tdx-guest/validate.validateXfam
//vp:merge github.com/google/go-tdx-guest/validate.validateTdAttributes

func anyOpt(name string, max int) []byte {
	if vp.Choose(name+"_nil", 2) == 0 {
		return nil
	}
	n := vp.IntRange(name+"_len", 0, max)
	return vp.Bytes(name, n)
}

// H10e: validate.TdxQuote on a structurally arbitrary message with arbitrary options.
func H10e_Validate_AnyMessage() {
	nilWhich := vp.Choose("nilWhich", 9)
	nR := 4
	if nilWhich != 2 {
		nR = vp.Choose("nRtmrs", 6)
	}
	quote := q.Arbitrary("q_", nilWhich, nR, 100)
	o := &Options{}
	o.HeaderOptions.MinimumQeSvn, o.HeaderOptions.MinimumPceSvn = vp.U16("minQe"), vp.U16("minPce")
	n := vp.IntRange("o_len", 0, 70)
	// one shared symbolic length keeps the shape count small; contents are independent
	o.HeaderOptions.QeVendorID = vp.Bytes("o_qevendor", n)
	b := &o.TdQuoteBodyOptions
	b.MinimumTeeTcbSvn = anyOpt("o_mintee", 20)
	b.MrSeam, b.TdAttributes, b.Xfam = vp.Bytes("o_mrseam", n), vp.Bytes("o_tdattr", n), vp.Bytes("o_xfam", n)
	b.MrTd, b.MrConfigID, b.MrOwner = vp.Bytes("o_mrtd", n), vp.Bytes("o_mrconfigid", n), vp.Bytes("o_mrowner", n)
	b.MrOwnerConfig, b.ReportData = vp.Bytes("o_mrownerconfig", n), vp.Bytes("o_reportdata", n)
	for i, k := 0, vp.Choose("nOptRtmrs", 6); i < k; i++ {
		b.Rtmrs = append(b.Rtmrs, vp.Bytes("o_rtmr"+string(rune('0'+i)), vp.IntRange("o_rtmr_len"+string(rune('0'+i)), 0, 50)))
	}
	for i, k := 0, vp.Choose("nAny", 3); i < k; i++ {
		b.AnyMrTd = append(b.AnyMrTd, vp.Bytes("o_any"+string(rune('0'+i)), vp.IntRange("o_any_len"+string(rune('0'+i)), 0, 50)))
	}
	err := TdxQuote(quote, o)
	vp.Reach("accept", err == nil)
	vp.Reach("reject", err != nil)
}

// H10f: validate.RawTdxQuote on an arbitrary byte string.
func H10f_ValidateRaw_AnyBytes() {
	L := vp.IntRange("L", 0, 1<<20)
	b := vp.Bytes("b", L)
	err := RawTdxQuote(b, &Options{})
	vp.Reach("reject", err != nil)
}
