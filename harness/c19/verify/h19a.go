package verify

import (
	"errors"

	"github.com/google/go-tdx-guest/verify/trust"
	vp "github.com/google/go-tdx-guest/zzvp"
)

// H19a: failures to download collateral or CRLs are reported as distinguishable error types.
func H19a_FetchFailuresAreTyped() {
	w := mkCollateralWorld(0, 1, 0, 1, 1, 0)
	quote := mkQuote(w.pki, 0)
	rev := vp.Choose("checkRevocations", 2) == 1
	err := TdxQuote(quote, &Options{GetCollateral: true, CheckRevocations: rev, Getter: w.getter, Now: symTimeSet("t")})
	g := w.getter
	// did the last request fail at the network level?
	fetchFailed := false
	lastKind := ""
	if n := len(g.kind); n > 0 {
		lastKind = g.kind[n-1]
		switch lastKind {
		case "tcb":
			fetchFailed = w.tcbDoc.resp.fail
		case "qe":
			fetchFailed = w.qeDoc.resp.fail
		case "pckcrl":
			fetchFailed = w.pckCrl.resp.fail
		case "rootcrl":
			fetchFailed = w.rootCrls[0].resp.fail
		}
	}
	vp.Reach("collateral-download-fails", vp.And(fetchFailed, lastKind == "tcb"))
	if rev {
		vp.Reach("crl-download-fails", vp.And(fetchFailed, lastKind == "pckcrl"))
	}
	if !fetchFailed {
		return
	}
	vp.Assert("download-failure-is-an-error", err != nil)
	var are *trust.AttestationRecreationErr
	var crl CRLUnavailableErr
	typed := errors.As(err, &are) || errors.As(err, &crl)
	vp.Assert("download-failure-has-a-distinguishable-type", typed)
}
