package main

import (
	"errors"
	"flag"
	"fmt"
	"io"
	"io/fs"
	"os"

	ccpb "github.com/google/go-tdx-guest/proto/checkconfig"
	pb "github.com/google/go-tdx-guest/proto/tdx"
	"github.com/google/go-tdx-guest/validate"
	"github.com/google/go-tdx-guest/verify"
	"github.com/google/go-tdx-guest/verify/trust"
	vp "github.com/google/go-tdx-guest/zzvp"
	"google.golang.org/protobuf/encoding/prototext"
	"google.golang.org/protobuf/proto"
)

// ---- the modelled environment of the tool ----

type env19 struct {
	configParseFails bool
	configIsText     bool // the config path ends in .textproto
	cfgUnknownField  bool // a text config names a field the schema does not have: malformed (strict decoding rejects it)
	cfg              *ccpb.Config // what decoding the config file yields (merged into the tool's config)
	quoteReadFails   bool
	quoteParseFails  bool
	rotFails         bool
	verifyKind       int // 0 ok, 1 plain error, 2 collateral download error, 3 CRL download error
	polConvFails     bool
	validateFails    bool
	pathMissing      bool

	sawRot     *ccpb.RootOfTrust
	sawPolicy  *ccpb.Policy
	sawVerify  bool
	sawValid   bool
	exited     bool
	exitCode   int
	theQuote   *pb.QuoteV4
	verifyOpts *verify.Options
}

var e19 *env19

//vp:model flag.Parse
func m_flagParse() {}

// Flags are set by their command-line NAME (flag.Set; byte-string flags through the registry below),
// never through the tool's variables: renaming a variable is none of the property's business.
var bytesFlags map[string]*[]byte // filled while the tool's package-level variables are initialised

//vp:model github.com/google/go-sev-guest/tools/lib/cmdline.Bytes
func m_cmdlineBytes(name string, byteSize int, in *string) *[]byte {
	p := new([]byte)
	if bytesFlags == nil {
		bytesFlags = map[string]*[]byte{}
	}
	bytesFlags[name] = p
	return p
}

func setFlag(name, value string) {
	if err := flag.Set(name, value); err != nil {
		vp.Assert("the-tool-defines-flag-"+name, false)
	}
}

func setBytesFlag(name string, value []byte) {
	p, ok := bytesFlags[name]
	vp.Assert("the-tool-defines-flag"+name, ok)
	if ok {
		*p = value
	}
}

//vp:model github.com/google/go-sev-guest/tools/lib/cmdline.Parse
func m_cmdlineParse(inform string) {}

//vp:model os.Exit
func m_osExit(code int) {
	checkExit(code)
	vp.EndPath()
}

//vp:model os.ReadFile
func m_ReadFile(name string) ([]byte, error) { return []byte{1}, nil }

func mergeConfig(dst *ccpb.Config) error {
	if e19.configParseFails {
		return errors.New("proto: cannot parse")
	}
	// protobuf decoding sets the fields present in the file
	dst.RootOfTrust = e19.cfg.RootOfTrust
	dst.Policy = e19.cfg.Policy
	return nil
}

//vp:model google.golang.org/protobuf/proto.Unmarshal
func m_protoUnmarshal(b []byte, m proto.Message) error {
	switch t := m.(type) {
	case *ccpb.Config:
		return mergeConfig(t)
	case *pb.QuoteV4:
		if e19.quoteParseFails {
			return errors.New("proto: cannot parse")
		}
		return nil
	}
	return errors.New("unexpected message")
}

//vp:model google.golang.org/protobuf/encoding/prototext.Unmarshal
func m_prototextUnmarshal(b []byte, m proto.Message) error {
	return m_prototextOptUnmarshal(prototext.UnmarshalOptions{}, b, m)
}

// contract of the text decoder: an unknown field name is an error unless DiscardUnknown is set,
// in which case the field is dropped silently.
//
//vp:model (google.golang.org/protobuf/encoding/prototext.UnmarshalOptions).Unmarshal
func m_prototextOptUnmarshal(o prototext.UnmarshalOptions, b []byte, m proto.Message) error {
	if _, isCfg := m.(*ccpb.Config); isCfg && e19.cfgUnknownField && !o.DiscardUnknown {
		return errors.New("proto: unknown field")
	}
	return m_protoUnmarshal(b, m)
}

//vp:model os.Open
func m_osOpen(name string) (*os.File, error) {
	if e19.quoteReadFails {
		return nil, errors.New("open failed")
	}
	return nil, nil
}

//vp:model (*os.File).Close
func m_fileClose(f *os.File) error { return nil }

//vp:model io.ReadAll
func m_ReadAll(r io.Reader) ([]byte, error) { return []byte{4, 0}, nil }

type fakeInfo struct{ fs.FileInfo }

func (fakeInfo) IsDir() bool { return false }

//vp:model os.Stat
func m_osStat(name string) (os.FileInfo, error) {
	if e19.pathMissing {
		return nil, errors.New("no such file")
	}
	return fakeInfo{}, nil
}

//vp:model github.com/google/go-tdx-guest/abi.QuoteToProto
func m_QuoteToProto(b []uint8) (any, error) {
	if e19.quoteParseFails {
		return nil, errors.New("bad quote")
	}
	return e19.theQuote, nil
}

//vp:model github.com/google/go-tdx-guest/verify.RootOfTrustToOptions
func m_RootOfTrustToOptions(rot *ccpb.RootOfTrust) (*verify.Options, error) {
	e19.sawRot = &ccpb.RootOfTrust{CheckCrl: rot.CheckCrl, GetCollateral: rot.GetCollateral, CabundlePaths: rot.CabundlePaths}
	if e19.rotFails {
		return nil, errors.New("bad bundle")
	}
	e19.verifyOpts = &verify.Options{CheckRevocations: rot.CheckCrl, GetCollateral: rot.GetCollateral}
	return e19.verifyOpts, nil
}

// verify.TdxQuote: a symbolic verdict. Download failures come back the way the library
// reports them (H19a): typed errors wrapped with %w.
//
//vp:model github.com/google/go-tdx-guest/verify.TdxQuote
func m_verifyTdxQuote(quote any, options *verify.Options) error {
	e19.sawVerify = true
	switch e19.verifyKind {
	case 0:
		return nil
	case 2:
		return fmt.Errorf("unable to receive tcbInfo: %w", &trust.AttestationRecreationErr{Msg: "could not receive tcbInfo response"})
	case 3:
		return fmt.Errorf("unable to receive PCK CRL: %w", verify.CRLUnavailableErr{})
	}
	return errors.New("signature does not verify")
}

//vp:model github.com/google/go-tdx-guest/validate.PolicyToOptions
func m_PolicyToOptions(policy *ccpb.Policy) (*validate.Options, error) {
	e19.sawPolicy = policy
	if e19.polConvFails {
		return nil, errors.New("bad policy")
	}
	return &validate.Options{}, nil
}

//vp:model github.com/google/go-tdx-guest/validate.TdxQuote
func m_validateTdxQuote(quote any, options *validate.Options) error {
	e19.sawValid = true
	if e19.validateFails {
		return errors.New("policy mismatch")
	}
	return nil
}

// ---- inputs ----

type in19 struct {
	configPresent        bool
	policyShape          int // 0 policy absent, 1 policy {}, 2 header only, 3 body only, 4 both
	rotPresent           bool
	cfgCheckCrl, cfgColl bool
	cfgMinQe             uint32
	cfgVendor, cfgMrSeam []byte
	fCheckCrl, fColl     string
	fMinQe               string
	fVendor, fMrSeam     []byte
	fRtmrs               string
	fBundles             string
}

var boolFlags = []string{"", "true", "false", "maybe"}
var uintFlags = []string{"", "7", "0x10", "4294967296", "zz"}
var uintVals = []uint32{0, 7, 16, 0, 0}
var rtmrFlags = []string{"", "00ff,,aa,bb", "xyz"}

// focus selects which dimensions vary: 0 exit-code logic, 1 boolean flags, 2 policy merge, 3 malformed inputs
func inputs19(focus int) in19 {
	var in in19
	in.configPresent = vp.Choose("configPresent", 2) == 1
	if in.configPresent {
		in.policyShape, in.rotPresent = 4, true
		if focus == 2 {
			in.policyShape = vp.Choose("policyShape", 5)
		}
		if focus == 1 {
			in.rotPresent = vp.Choose("rotPresent", 2) == 1
		}
		in.cfgCheckCrl, in.cfgColl = vp.Bool("cfgCheckCrl"), vp.Bool("cfgGetCollateral")
		in.cfgMinQe = vp.U32("cfgMinQeSvn")
		in.cfgVendor, in.cfgMrSeam = vp.Bytes("cfgQeVendor", 16), vp.Bytes("cfgMrSeam", 48)
	}
	if focus == 1 {
		in.fCheckCrl = boolFlags[vp.Choose("flagCheckCrl", 4)]
		in.fColl = boolFlags[vp.Choose("flagGetCollateral", 4)]
	}
	if focus == 2 {
		in.fMinQe = uintFlags[vp.Choose("flagMinQeSvn", 5)]
		if vp.Choose("flagVendorSet", 2) == 1 {
			in.fVendor = vp.Bytes("flagQeVendor", 16)
		}
		if vp.Choose("flagMrSeamSet", 2) == 1 {
			in.fMrSeam = vp.Bytes("flagMrSeam", 48)
		}
	}
	if focus == 3 {
		in.fRtmrs = rtmrFlags[vp.Choose("flagRtmrs", 3)]
		if vp.Choose("flagBundles", 2) == 1 {
			in.fBundles = "/roots/a.pem"
		}
	}
	return in
}

func effBool(flag string, present, cfgVal bool) bool {
	switch flag {
	case "true":
		return true
	case "false":
		return false
	}
	if present {
		return cfgVal
	}
	return false
}

var theIn in19

// expectedExit: the statement, step by step in the order the tool works.
func expectedExit(in in19) int {
	e := e19
	if in.configPresent && (e.configParseFails || e.cfgUnknownField) {
		return 1
	}
	if in.fCheckCrl == "maybe" || in.fColl == "maybe" || in.fMinQe == "4294967296" || in.fMinQe == "zz" || in.fRtmrs == "xyz" {
		return 1
	}
	if in.fBundles != "" && e.pathMissing {
		return 1
	}
	return -1 // decided symbolically in checkExit
}

func checkExit(code int) {
	e, in := e19, theIn
	e.exited, e.exitCode = true, code
	if want := expectedExit(in); want > 0 {
		vp.Assert("malformed-flags-or-config-exit-1", code == want)
		return
	}
	cfgRot := in.configPresent && in.rotPresent
	effCrl := effBool(in.fCheckCrl, in.configPresent, vp.And(cfgRot, in.cfgCheckCrl))
	effColl := effBool(in.fColl, in.configPresent, vp.And(cfgRot, in.cfgColl))
	conflict := vp.And(effCrl, !effColl)
	// first failing step decides
	want := vp.IteInt(conflict, 1,
		vp.IteInt(vp.Or(e.quoteReadFails, e.quoteParseFails), 1,
			vp.IteInt(e.rotFails, 1,
				vp.IteInt(e.verifyKind == 1, 2,
					vp.IteInt(vp.Or(e.verifyKind == 2, e.verifyKind == 3), 3,
						vp.IteInt(e.polConvFails, 1,
							vp.IteInt(e.validateFails, 4, 0)))))))
	vp.Assert("exit-code-is-truthful", code == want)
	if code == 0 {
		vp.Assert("exit-0-only-after-verification-and-validation", vp.And(e.sawVerify, e.sawValid, e.verifyKind == 0, !e.validateFails))
	}
	if e.sawRot != nil {
		vp.Assert("flag-overrides-config-check-crl", e.sawRot.CheckCrl == effCrl)
		vp.Assert("flag-overrides-config-get-collateral", e.sawRot.GetCollateral == effColl)
		if in.fBundles != "" {
			// the flag overrides the config's bundle list
			vp.Assert("trusted-roots-flag-overrides-config", len(e.sawRot.CabundlePaths) == 1 && e.sawRot.CabundlePaths[0] == in.fBundles)
		} else if in.configPresent && in.rotPresent && len(e.cfg.RootOfTrust.CabundlePaths) == 1 {
			vp.Assert("unset-trusted-roots-flag-leaves-config", len(e.sawRot.CabundlePaths) == 1 && e.sawRot.CabundlePaths[0] == "/roots/from-config.pem")
		}
	}
	if e.sawPolicy != nil {
		hp, bp := e.sawPolicy.GetHeaderPolicy(), e.sawPolicy.GetTdQuoteBodyPolicy()
		cfgHeader := in.configPresent && (in.policyShape == 2 || in.policyShape == 4)
		cfgBody := in.configPresent && (in.policyShape == 3 || in.policyShape == 4)
		// minimum QE SVN: the flag when given, else the config's value, else the default 0
		wantQe := uint32(0)
		if cfgHeader {
			wantQe = in.cfgMinQe
		}
		for i, f := range uintFlags {
			if in.fMinQe == f && f != "" {
				wantQe = uintVals[i]
			}
		}
		vp.Assert("flag-overrides-config-min-qe-svn", hp.GetMinimumQeSvn() == wantQe)
		if in.fVendor != nil {
			vp.Assert("flag-overrides-config-qe-vendor", vp.BytesEq(hp.GetQeVendorId(), in.fVendor))
		} else if cfgHeader {
			vp.Assert("unset-flag-leaves-config-qe-vendor", vp.BytesEq(hp.GetQeVendorId(), in.cfgVendor))
		} else {
			vp.Assert("no-qe-vendor-expectation", len(hp.GetQeVendorId()) == 0)
		}
		if in.fMrSeam != nil {
			vp.Assert("flag-overrides-config-mr-seam", vp.BytesEq(bp.GetMrSeam(), in.fMrSeam))
		} else if cfgBody {
			vp.Assert("unset-flag-leaves-config-mr-seam", vp.BytesEq(bp.GetMrSeam(), in.cfgMrSeam))
		} else {
			vp.Assert("no-mr-seam-expectation", len(bp.GetMrSeam()) == 0)
		}
	}
}

func h19b(focus int) {
	in := inputs19(focus)
	theIn = in
	e19 = &env19{theQuote: &pb.QuoteV4{}}
	if focus == 0 {
		e19.quoteReadFails, e19.quoteParseFails = vp.Bool("quoteReadFails"), vp.Bool("quoteParseFails")
		e19.rotFails, e19.verifyKind = vp.Bool("rootOfTrustFails"), vp.Choose("verifyKind", 4)
		e19.polConvFails, e19.validateFails = vp.Bool("policyConversionFails"), vp.Bool("validationFails")
	}
	if focus == 3 {
		e19.configParseFails = vp.Choose("configParseFails", 2) == 1 && in.configPresent
		e19.pathMissing = vp.Choose("bundlePathMissing", 2) == 1 && in.fBundles != ""
		e19.configIsText = in.configPresent && vp.Choose("configIsText", 2) == 1
		e19.cfgUnknownField = e19.configIsText && vp.Choose("textConfigHasUnknownField", 2) == 1
	}
	// the config file's content
	cfg := &ccpb.Config{}
	if in.rotPresent {
		cfg.RootOfTrust = &ccpb.RootOfTrust{CheckCrl: in.cfgCheckCrl, GetCollateral: in.cfgColl}
		if focus == 3 && vp.Choose("cfgBundles", 2) == 1 {
			cfg.RootOfTrust.CabundlePaths = []string{"/roots/from-config.pem"}
		}
	}
	if in.policyShape > 0 {
		cfg.Policy = &ccpb.Policy{}
		if in.policyShape == 2 || in.policyShape == 4 {
			cfg.Policy.HeaderPolicy = &ccpb.HeaderPolicy{MinimumQeSvn: in.cfgMinQe, QeVendorId: in.cfgVendor}
		}
		if in.policyShape == 3 || in.policyShape == 4 {
			cfg.Policy.TdQuoteBodyPolicy = &ccpb.TDQuoteBodyPolicy{MrSeam: in.cfgMrSeam}
		}
	}
	e19.cfg = cfg
	// flags
	if in.configPresent {
		if e19.configIsText {
			setFlag("config", "/cfg/config.textproto")
		} else {
			setFlag("config", "/cfg/config.binarypb")
		}
	}
	setFlag("in", "/in/quote.dat")
	setFlag("check_crl", in.fCheckCrl)
	setFlag("get_collateral", in.fColl)
	setFlag("minimum_qe_svn", in.fMinQe)
	setFlag("rtmrs", in.fRtmrs)
	setFlag("trusted_roots", in.fBundles)
	setBytesFlag("-qe_vendor_id", in.fVendor)
	setBytesFlag("-mr_seam", in.fMrSeam)
	setFlag("quiet", "true")
	main()
	checkExit(0)
}

func H19b_ExitCodes()       { h19b(0) }
func H19c_BooleanFlags()    { h19b(1) }
func H19d_PolicyMerge()     { h19b(2) }
func H19e_MalformedInputs() { h19b(3) }
