package rtmr

import (
	"crypto/x509"
	"errors"
	"fmt"
	"time"

	"github.com/google/go-eventlog/extract"
	"github.com/google/go-eventlog/proto/state"
	"github.com/google/go-eventlog/register"
	pb "github.com/google/go-tdx-guest/proto/tdx"
	"github.com/google/go-tdx-guest/validate"
	"github.com/google/go-tdx-guest/verify"
	"github.com/google/go-tdx-guest/verify/trust"
	vp "github.com/google/go-tdx-guest/zzvp"
	"github.com/google/go-tdx-guest/zzvp/q"
)

//vp:merge github.com/google/go-tdx-guest/validate.byteCheck
//vp:merge github.com/google/go-tdx-guest/validate.byteCheckRtmr
//vp:merge github.com/google/go-tdx-guest/validate.byteCheckAny
//vp:merge github.com/google/go-tdx-guest/validate.exactByteMatch
//vp:merge github.com/google/go-tdx-guest/validate.minVersionCheck
//vp:merge github.com/google/go-tdx-guest/validate.isSvnHigherOrEqual
//vp:merge github.com/google/go-tdx-guest/validate.validateXfam
//vp:merge github.com/google/go-tdx-guest/validate.validateTdAttributes
//vp:merge github.com/google/go-tdx-guest/validate.tdxQuoteV4

var (
	verifyOK      bool
	verifyCalls   int
	verifiedQuote any
	verifiedOpts  *verify.Options
	errVerify     = errors.New("verification failed")
	errReplay     = errors.New("replay failed")
	replayCalls   int
	replayBank    register.RTMRBank
	replayTable   []byte
	replayLog     []byte
	replayOpt     extract.Opts
	theState      = &state.FirmwareLogState{}
)

// verify.TdxQuote is the subject of C01-C07; here it is a symbolic verdict that leaves the quote untouched (C16).
//
//vp:model github.com/google/go-tdx-guest/verify.TdxQuote
func m_verifyTdxQuote(quote any, options *verify.Options) error {
	verifyCalls++
	verifiedQuote, verifiedOpts = quote, options
	if verifyOK {
		return nil
	}
	// a failed verification may be of any kind, including the typed download errors
	switch verifyErrKind {
	case 1:
		return fmt.Errorf("unable to receive PCK CRL: %w", verify.CRLUnavailableErr{})
	case 2:
		return fmt.Errorf("unable to receive tcbInfo: %w", &trust.AttestationRecreationErr{Msg: "network"})
	}
	return errVerify
}

var verifyErrKind int

func replayOK(table, log []byte, bank register.RTMRBank) bool {
	args := []any{vp.GhostGet(table, "content-id"), vp.GhostGet(log, "content-id"), len(bank.RTMRs)}
	for _, r := range bank.RTMRs {
		args = append(args, r.Index, r.Digest)
	}
	return vp.UFBool("ReplayOK", args...)
}

// go-eventlog's ccel.ReplayAndExtract: a state iff replaying the log reproduces the bank.
//
//vp:model github.com/google/go-eventlog/ccel.ReplayAndExtract
func m_ReplayAndExtract(acpiTableFile []byte, rawEventLog []byte, rtmrBank register.RTMRBank, opts extract.Opts) (*state.FirmwareLogState, error) {
	replayCalls++
	replayBank, replayTable, replayLog, replayOpt = rtmrBank, acpiTableFile, rawEventLog, opts
	for _, r := range rtmrBank.RTMRs {
		if len(r.Digest) != 48 {
			return nil, errReplay
		}
	}
	if replayOK(acpiTableFile, rawEventLog, rtmrBank) {
		return theState, nil
	}
	return nil, errReplay
}

var wallclock time.Time

//vp:model time.Now
func m_now() time.Time { return wallclock }

func h18(policyKind int) {
	quote := q.Valid("q_", q.Shape{AuthLen: 0, Chain: vp.Bytes("chain", 3)})
	table, log := vp.Bytes("acpi_table", 5), vp.Bytes("ccel_log", 6)
	vp.GhostSet(table, "content-id", vp.U64("table_id"))
	vp.GhostSet(log, "content-id", vp.U64("log_id"))
	verifyOK = vp.Bool("verification_verdict")
	verifyErrKind = vp.Choose("verification_error_kind", 3)
	loader := extract.Bootloader(vp.Choose("loader", 2)) // UnsupportedLoader or GRUB
	pol := &validate.Options{}
	switch policyKind {
	case 1:
		pol.TdQuoteBodyOptions.ReportData = vp.Bytes("want_reportdata", 64)
	case 2:
		pol.TdQuoteBodyOptions.MrTd = vp.Bytes("want_mrtd", 48)
		pol.HeaderOptions.MinimumQeSvn = vp.U16("min_qesvn")
	}
	vopts := &verify.Options{GetCollateral: vp.Bool("getCollateral"), CheckRevocations: vp.Bool("checkRevocations"),
		Getter: &trust.SimpleHTTPSGetter{}, Now: &verify.TimeSet{}, TrustedRoots: new(x509.CertPool)}
	opts := &ParseTdxCcelOpts{Validation: pol, Verification: vopts, ExtractOpt: extract.Opts{Loader: loader}}
	st, err := ParseCcelWithTdQuote(log, table, quote, opts)
	polErr := validate.TdxQuote(quote, pol)
	vp.Reach("state-returned", st != nil)
	vp.Reach("rejected-by-verification", vp.And(!verifyOK, err != nil))
	if policyKind > 0 {
		vp.Reach("rejected-by-policy", vp.And(verifyOK, polErr != nil, err != nil))
	}
	vp.Assert("state-xor-error", (st != nil) == (err == nil))
	// (the options may be handed on as they are or as a copy: what counts is every caller-visible field)
	sameOpts := verifiedOpts != nil && verifiedOpts.GetCollateral == vopts.GetCollateral && verifiedOpts.CheckRevocations == vopts.CheckRevocations &&
		verifiedOpts.Getter == vopts.Getter && verifiedOpts.Now == vopts.Now && verifiedOpts.TrustedRoots == vopts.TrustedRoots
	vp.Assert("verified-the-given-quote-under-the-given-options", vp.And(verifyCalls == 1, verifiedQuote == any(quote), sameOpts))
	vp.Assert("state-only-if-verification-passed", vp.Implies(st != nil, verifyOK))
	vp.Assert("state-only-if-policy-satisfied", vp.Implies(st != nil, polErr == nil))
	if st != nil {
		vp.Assert("replayed-once-with-the-given-log-and-table", vp.And(replayCalls == 1, vp.SameObject(replayTable, table), vp.SameObject(replayLog, log), replayOpt.Loader == loader))
		vp.Assert("bank-has-the-quotes-four-rtmrs", len(replayBank.RTMRs) == 4)
		if len(replayBank.RTMRs) == 4 {
			want := register.RTMRBank{}
			for i := 0; i < 4; i++ {
				vp.Assert("bank-entry-is-register-i-of-the-quote", vp.And(replayBank.RTMRs[i].Index == i, vp.BytesEq(replayBank.RTMRs[i].Digest, quote.TdQuoteBody.Rtmrs[i])))
				want.RTMRs = append(want.RTMRs, register.RTMR{Index: i, Digest: quote.TdQuoteBody.Rtmrs[i]})
			}
			vp.Assert("state-only-if-replay-matches-the-quotes-rtmrs", replayOK(table, log, want))
		}
	}
	vp.Assert("no-replay-before-both-gates", vp.Implies(vp.Or(!verifyOK, polErr != nil), replayCalls == 0))
}

func H18a_NoPolicy()         { h18(0) }
func H18b_ReportDataPolicy() { h18(1) }
func H18c_MrTdAndSvnPolicy() { h18(2) }

// H18d: unsupported quote types and too many RTMRs are errors.
func H18d_BankExtraction() {
	n := vp.Choose("nRtmrs", 7)
	body := &pb.TDQuoteBody{}
	for i := 0; i < n; i++ {
		body.Rtmrs = append(body.Rtmrs, vp.Bytes("r"+string(rune('0'+i)), 48))
	}
	bank, err := GetRtmrsFromTdQuote(&pb.QuoteV4{TdQuoteBody: body})
	vp.Assert("more-than-four-rtmrs-is-an-error", (err != nil) == (n > 4))
	if err == nil {
		vp.Assert("bank-size", len(bank.RTMRs) == n)
		for i := 0; i < n && i < len(bank.RTMRs); i++ {
			vp.Assert("bank-entry", vp.And(bank.RTMRs[i].Index == i, vp.BytesEq(bank.RTMRs[i].Digest, body.Rtmrs[i])))
		}
	}
	_, err2 := GetRtmrsFromTdQuote("not a quote")
	vp.Assert("unsupported-type-is-an-error", err2 != nil)
}

// H18e: the default options bind REPORT_DATA to the caller's nonce.
func H18e_DefaultOpts() {
	n := vp.IntRange("nonce_len", 0, 64)
	nonce := vp.Bytes("nonce", n)
	wallclock = time.Unix(1700000000, 0)
	o := TdxDefaultOpts(nonce)
	rd := o.Validation.TdQuoteBodyOptions.ReportData
	vp.Assert("report-data-expectation-is-64-bytes", len(rd) == 64)
	i := vp.IntRange("i", 0, 63)
	if len(rd) == 64 {
		if i < n {
			vp.Assert("nonce-copied", rd[i] == nonce[i])
		} else {
			vp.Assert("zero-padding", rd[i] == 0)
		}
	}
	vp.Assert("verification-options-present", vp.And(o.Verification != nil, o.ExtractOpt.Loader == extract.GRUB))
}

// H18f: histories on ONE options value and ONE quote object. After a call that returned a state,
// the caller replaces the policy, the quote stops verifying, or an RTMR of the quote is replaced;
// the next call goes through both gates and the replay again, for what the objects now contain.
func H18f_SecondCallSameObjects() {
	quote := q.Valid("q_", q.Shape{AuthLen: 0, Chain: vp.Bytes("chain", 3)})
	table, log := vp.Bytes("acpi_table", 5), vp.Bytes("ccel_log", 6)
	vp.GhostSet(table, "content-id", vp.U64("table_id"))
	vp.GhostSet(log, "content-id", vp.U64("log_id"))
	verifyOK = true
	vopts := &verify.Options{}
	opts := &ParseTdxCcelOpts{Validation: &validate.Options{}, Verification: vopts, ExtractOpt: extract.Opts{Loader: extract.GRUB}}
	st1, _ := ParseCcelWithTdQuote(log, table, quote, opts)
	if st1 == nil {
		return
	}
	vp.Reach("first-call-returned-a-state", true)
	// what changes before the second call
	switch vp.Choose("change", 3) {
	case 0:
		verifyOK = false
	case 1:
		opts.Validation = &validate.Options{TdQuoteBodyOptions: validate.TdQuoteBodyOptions{ReportData: vp.Bytes("want_reportdata", 64)}}
	case 2:
		quote.TdQuoteBody.Rtmrs[1] = vp.Bytes("new_rtmr1", 48)
	}
	verifyCalls, replayCalls = 0, 0
	st, err := ParseCcelWithTdQuote(log, table, quote, opts)
	polErr := validate.TdxQuote(quote, opts.Validation)
	vp.Reach("second-call-returns-a-state", st != nil)
	vp.Reach("second-call-rejects", st == nil)
	vp.Assert("state-xor-error", (st != nil) == (err == nil))
	vp.Assert("second-call-verifies-again", verifyCalls == 1)
	vp.Assert("state-only-if-verification-passes-now", vp.Implies(st != nil, verifyOK))
	vp.Assert("state-only-if-the-current-policy-is-satisfied", vp.Implies(st != nil, polErr == nil))
	if st != nil {
		want := register.RTMRBank{}
		for i := 0; i < 4; i++ {
			want.RTMRs = append(want.RTMRs, register.RTMR{Index: i, Digest: quote.TdQuoteBody.Rtmrs[i]})
		}
		vp.Assert("state-only-if-replay-matches-the-current-rtmrs", vp.And(replayCalls == 1, replayOK(table, log, want)))
	}
}
