package verify

import (
	"crypto/x509"
	"time"

	"github.com/google/go-tdx-guest/pcs"
	pb "github.com/google/go-tdx-guest/proto/tdx"
	vp "github.com/google/go-tdx-guest/zzvp"
)

//vp:merge github.com/google/go-tdx-guest/verify.applyMask
//vp:merge github.com/google/go-tdx-guest/verify.isCPUSvnHigherOrEqual
//vp:merge github.com/google/go-tdx-guest/verify.isTdxTcbSvnHigherOrEqual
//vp:merge (time.Time).After
//vp:merge (time.Time).Before

func status04(name string) pcs.TcbComponentStatus { return pcs.TcbComponentStatus(vp.Atom(name)) }

func comps(name string, n int) []pcs.TcbComponent {
	out := make([]pcs.TcbComponent, n)
	for i := range out {
		out[i].Svn = vp.U8(name + "_" + string(rune('a'+i)))
	}
	return out
}

type world04 struct {
	body    *pb.TDQuoteBody
	ext     *pcs.PckExtensions
	info    pcs.TcbInfo
	k, m, l int
}

// mkWorld04: k platform levels, m module identities with l levels each; nComp components per vector.
func mkWorld04(k, m, l, nComp int) world04 {
	w := world04{k: k, m: m, l: l}
	w.body = &pb.TDQuoteBody{
		TeeTcbSvn:      vp.Bytes("teetcbsvn", 16),
		MrSignerSeam:   vp.Bytes("mrsignerseam", 48),
		SeamAttributes: vp.Bytes("seamattributes", 8),
	}
	w.ext = &pcs.PckExtensions{
		FMSPC: vp.StrN("pck_fmspc", 12),
		PCEID: vp.StrN("pck_pceid", 4),
		TCB:   pcs.PckCertTCB{PCESvn: vp.U16("pck_pcesvn"), CPUSvnComponents: vp.Bytes("pck_cpusvn", 16)},
	}
	w.info = pcs.TcbInfo{
		Fmspc: vp.Str("tcb_fmspc", 14),
		PceID: vp.Str("tcb_pceid", 6),
		TdxModule: pcs.TdxModule{
			Mrsigner:       pcs.HexBytes{Bytes: vp.Bytes("tcb_mrsigner", vp.IntRange("tcb_mrsigner_len", 47, 49))},
			Attributes:     pcs.HexBytes{Bytes: vp.Bytes("tcb_attributes", vp.IntRange("tcb_attributes_len", 7, 9))},
			AttributesMask: pcs.HexBytes{Bytes: vp.Bytes("tcb_attributesmask", vp.IntRange("tcb_attributesmask_len", 7, 9))},
		},
	}
	for i := 0; i < k; i++ {
		n := "lvl" + string(rune('0'+i))
		w.info.TcbLevels = append(w.info.TcbLevels, pcs.TcbLevel{
			Tcb:       pcs.Tcb{SgxTcbcomponents: comps(n+"_sgx", nComp), Pcesvn: vp.U16(n + "_pcesvn"), TdxTcbcomponents: comps(n+"_tdx", nComp)},
			TcbStatus: status04(n + "_status"),
		})
	}
	for i := 0; i < m; i++ {
		n := "mod" + string(rune('0'+i))
		id := pcs.TdxModuleIdentity{ID: vp.Str(n+"_id", 8)}
		for j := 0; j < l; j++ {
			nn := n + "_lvl" + string(rune('0'+j))
			id.TcbLevels = append(id.TcbLevels, pcs.TcbLevel{Tcb: pcs.Tcb{Isvsvn: vp.U32(nn + "_isvsvn")}, TcbStatus: status04(nn + "_status")})
		}
		w.info.TdxModuleIdentities = append(w.info.TdxModuleIdentities, id)
	}
	return w
}

func lower(c byte) byte { return vp.IteU8(vp.And(c >= 'A', c <= 'Z'), c+32, c) }

func hexDigit(n byte) byte { return vp.IteU8(n < 10, '0'+n, 'a'+n-10) }

// platformMatch: level i is not above the platform (Intel's TDX TCB comparison, steps 3a-3c).
func (w world04) platformMatch(i int, nComp int) bool {
	lv := w.info.TcbLevels[i]
	ok := vp.And(w.ext.TCB.PCESvn >= lv.Tcb.Pcesvn, nComp == 16)
	for c := 0; c < nComp && c < 16; c++ {
		ok = vp.And(ok, w.ext.TCB.CPUSvnComponents[c] >= lv.Tcb.SgxTcbcomponents[c].Svn)
		// TDX components are compared from index 2 when TEE_TCB_SVN[1] is non-zero
		skip := vp.And(c < 2, w.body.TeeTcbSvn[1] != 0)
		ok = vp.And(ok, vp.Or(skip, w.body.TeeTcbSvn[c] >= lv.Tcb.TdxTcbcomponents[c].Svn))
	}
	return ok
}

// spec04: the verdict the statement prescribes.
func (w world04) spec04(nComp int) (accept, platformFound, moduleNeeded, moduleFound bool) {
	// identity fields: FMSPC case-insensitively, PCE-ID exactly
	f := w.info.Fmspc
	idOK := len(f) == 12
	if len(f) == 12 {
		for i := 0; i < 12; i++ {
			idOK = vp.And(idOK, lower(f[i]) == lower(w.ext.FMSPC[i]))
		}
	}
	idOK = vp.And(idOK, w.info.PceID == w.ext.PCEID)
	idOK = vp.And(idOK, vp.BytesEq(w.info.TdxModule.Mrsigner.Bytes, w.body.MrSignerSeam))
	mk, at := w.info.TdxModule.AttributesMask.Bytes, w.info.TdxModule.Attributes.Bytes
	idOK = vp.And(idOK, len(mk) == 8, len(at) == 8)
	if len(mk) == 8 && len(at) == 8 {
		for i := 0; i < 8; i++ {
			idOK = vp.And(idOK, w.body.SeamAttributes[i]&mk[i] == at[i])
		}
	}
	// first matching platform level must be UpToDate
	found, up := false, false
	for i := 0; i < w.k; i++ {
		mt := w.platformMatch(i, nComp)
		up = vp.IteBool(vp.And(!found, mt), w.info.TcbLevels[i].TcbStatus == "UpToDate", up)
		found = vp.Or(found, mt)
	}
	// TDX module identity TDX_<hex of TEE_TCB_SVN[1]>, first level with isvsvn <= TEE_TCB_SVN[0]
	moduleNeeded = w.body.TeeTcbSvn[1] != 0
	v := w.body.TeeTcbSvn[1]
	idFound, lvlFound, lvlUp := false, false, false
	for i := 0; i < w.m; i++ {
		id := w.info.TdxModuleIdentities[i].ID
		is := len(id) == 6
		if len(id) == 6 {
			is = vp.And(is, id[0] == 'T', id[1] == 'D', id[2] == 'X', id[3] == '_', id[4] == hexDigit(v>>4), id[5] == hexDigit(v&15))
		}
		first := vp.And(is, !idFound)
		lf, lu := false, false
		for j := 0; j < w.l; j++ {
			mt := w.info.TdxModuleIdentities[i].TcbLevels[j].Tcb.Isvsvn <= uint32(w.body.TeeTcbSvn[0])
			lu = vp.IteBool(vp.And(!lf, mt), w.info.TdxModuleIdentities[i].TcbLevels[j].TcbStatus == "UpToDate", lu)
			lf = vp.Or(lf, mt)
		}
		lvlFound = vp.IteBool(first, lf, lvlFound)
		lvlUp = vp.IteBool(first, lu, lvlUp)
		idFound = vp.Or(idFound, is)
	}
	moduleFound = vp.And(idFound, lvlFound)
	accept = vp.And(idOK, found, up, vp.Or(!moduleNeeded, vp.And(moduleFound, lvlUp)))
	return accept, found, moduleNeeded, moduleFound
}

func h04(k, m, l int) {
	w := mkWorld04(k, m, l, 16)
	err := verifyTdQuoteBody(w.body, &tdQuoteBodyOptions{tcbInfo: w.info, pckCertExtensions: w.ext})
	want, _, needed, _ := w.spec04(16)
	if k > 0 {
		vp.Reach("accept", err == nil)
		if m > 0 && l > 0 {
			vp.Reach("accept-with-module", vp.And(err == nil, needed))
		}
	}
	vp.Reach("reject", err != nil)
	vp.Assert("verdict-equals-statement", (err == nil) == want)
}

func H04a_k1()       { h04(1, 0, 0) }
func H04b_k2()       { h04(2, 0, 0) }
func H04c_k1_m1_l1() { h04(1, 1, 1) }
func H04d_k2_m1_l2() { h04(2, 1, 2) }
func H04e_k0()       { h04(0, 1, 1) }
func T04f_k3_m2_l2() { h04(3, 2, 2) }
func T04g_k4_m2_l3() { h04(4, 2, 3) }

// H04h: component vectors that are not 16 long never match.
func H04h_ShortVectors() {
	w := mkWorld04(1, 0, 0, 15)
	err := verifyTdQuoteBody(w.body, &tdQuoteBodyOptions{tcbInfo: w.info, pckCertExtensions: w.ext})
	vp.Assert("short-vector-never-matches", err != nil)
}

// H04i: the level reporting API returns an error rather than an empty level when nothing matches.
func H04i_SupportedTcbLevels() {
	w := mkWorld04(1, 1, 1, 16)
	far := time.Unix(4000000000, 0)
	now := time.Unix(1700000000, 0)
	w.info.NextUpdate = far
	w.info.ID = "TDX"
	cert := &x509.Certificate{NotAfter: far}
	qeLevels := []pcs.TcbLevel{{Tcb: pcs.Tcb{Isvsvn: vp.U32("qe_lvl_isvsvn")}, TcbStatus: status04("qe_lvl_status")}}
	col := &Collateral{
		TdxTcbInfo:  pcs.TdxTcbInfo{TcbInfo: w.info, Signature: "00"},
		TcbInfoBody: []byte{1}, EnclaveIdentityBody: []byte{1},
		QeIdentity:                              pcs.QeIdentity{EnclaveIdentity: pcs.EnclaveIdentity{ID: "TD_QE", NextUpdate: far, TcbLevels: qeLevels}, Signature: "00"},
		TcbInfoIssuerIntermediateCertificate:    cert,
		TcbInfoIssuerRootCertificate:            cert,
		QeIdentityIssuerIntermediateCertificate: cert,
		QeIdentityIssuerRootCertificate:         cert,
	}
	opts := &Options{GetCollateral: true, Now: &TimeSet{PckCertChain: now, TcbInfo: now, QeIdentity: now, PckCrl: now, RootCaCrl: now},
		collateral: col, pckCertExtensions: w.ext}
	isvsvn := uint32(vp.U16("qe_isvsvn"))
	quote := &pb.QuoteV4{TdQuoteBody: w.body, SignedData: &pb.Ecdsa256BitQuoteV4AuthData{CertificationData: &pb.CertificationData{
		QeReportCertificationData: &pb.QEReportCertificationData{QeReport: &pb.EnclaveReport{IsvSvn: isvsvn}}}}}
	_, _, err := SupportedTcbLevelsFromCollateral(quote, opts)
	_, platformFound, needed, moduleFound := w.spec04(16)
	qeFound := qeLevels[0].Tcb.Isvsvn <= isvsvn
	noMatch := vp.Or(!platformFound, vp.And(needed, !moduleFound), !qeFound)
	vp.Reach("all-match", vp.And(!noMatch, err == nil))
	vp.Reach("no-match", noMatch)
	vp.Assert("no-matching-level-is-an-error", vp.Implies(noMatch, err != nil))
}
