package verify

import (
	"github.com/google/go-tdx-guest/pcs"
	vp "github.com/google/go-tdx-guest/zzvp"
	"github.com/google/go-tdx-guest/zzvp/q"
)

func freshOpts(w *collateralWorld, coll, rev bool, now *TimeSet) *Options {
	return &Options{GetCollateral: coll, CheckRevocations: rev, Getter: w.getter, TrustedRoots: w.pool, Now: now}
}

// H12a: more checking never accepts more. The world (quote, certificates,
// endpoint answers, stub outcomes) is the same for the three calls because every
// stub is a function of its arguments and the getter is a map from URL to response.
func H12a_Monotone_RevThenCollThenBase() {
	w := mkCollateralWorld(0, 1, 0, 1, 1, 1)
	quote := mkQuote(w.pki, 0)
	now := symTimeSet("t")
	errRev := TdxQuote(quote, freshOpts(w, true, true, now))
	vp.Reach("rejected-with-revocation", errRev != nil)
	if errRev != nil {
		return
	}
	vp.Reach("accepted-with-revocation", true)
	errColl := TdxQuote(quote, freshOpts(w, true, false, now))
	vp.Assert("accepted-with-revocation-implies-accepted-with-collateral", errColl == nil)
	errBase := TdxQuote(quote, freshOpts(w, false, false, now))
	vp.Assert("accepted-with-revocation-implies-accepted-without-collateral", errBase == nil)
}

func H12b_Monotone_CollThenBase() {
	w := mkCollateralWorld(1, 1, 1, 1, 0, 0)
	quote := mkQuote(w.pki, 32)
	now := symTimeSet("t")
	errColl := TdxQuote(quote, freshOpts(w, true, false, now))
	vp.Reach("rejected-with-collateral", errColl != nil)
	if errColl != nil {
		return
	}
	vp.Reach("accepted-with-collateral", true)
	errBase := TdxQuote(quote, freshOpts(w, false, false, now))
	vp.Assert("accepted-with-collateral-implies-accepted-without", errBase == nil)
}

// H12c: fetch discipline.
func H12c_FetchDiscipline() {
	w := mkCollateralWorld(0, 1, 0, 1, 2, 0)
	quote := mkQuote(w.pki, 0)
	coll := vp.Choose("getCollateral", 2) == 1
	rev := vp.Choose("checkRevocations", 2) == 1
	_ = TdxQuote(quote, freshOpts(w, coll, rev, symTimeSet("t")))
	g := w.getter
	if !coll {
		vp.Assert("no-fetch-without-collateral-checking", len(g.urls) == 0)
		return
	}
	vp.Reach("fetched", len(g.urls) > 0)
	for i := range g.urls {
		k := g.kind[i]
		vp.Assert("only-known-endpoints-are-contacted", k != "other")
		if !rev {
			vp.Assert("crl-endpoints-only-with-revocation-checking", k != "pckcrl" && k != "rootcrl")
		}
		if k == "pckcrl" {
			platform := w.leaf.Issuer.CommonName == "Intel SGX PCK Platform CA"
			processor := w.leaf.Issuer.CommonName == "Intel SGX PCK Processor CA"
			vp.Assert("pck-crl-request-names-the-issuing-ca", vp.And(
				vp.Implies(platform, g.urls[i] == urlCrlPlatform), vp.Implies(processor, g.urls[i] == urlCrlProc), vp.Or(platform, processor)))
		}
	}
	if len(g.urls) > 0 {
		// the first request is the TCB info for the FMSPC of the quote's PCK certificate
		vp.Assert("tcb-info-request-names-the-pck-fmspc", g.urls[0] == "https://api.trustedservices.intel.com/tdx/certification/v4/tcb?fmspc="+w.exts.FMSPC)
	}
}

// H12d: the verdict does not depend on what an options value did before.
func H12d_HistoryIndependence() {
	w := mkCollateralWorld(0, 1, 0, 1, 1, 0)
	quote := mkQuote(w.pki, 0)
	coll := vp.Choose("getCollateral", 2) == 1
	rev := false
	if coll {
		rev = vp.Choose("checkRevocations", 2) == 1
	}
	now := symTimeSet("t")
	fresh := freshOpts(w, coll, rev, now)
	err1 := TdxQuote(quote, fresh)
	// an options value with arbitrary left-over private state from earlier verifications
	used := freshOpts(w, coll, rev, now)
	other := mkCert("stale")
	used.chain = &PCKCertificateChain{PCKCertificate: other, RootCertificate: other, IntermediateCertificate: other}
	used.collateral = &Collateral{TcbInfoBody: []byte{9}, EnclaveIdentityBody: []byte{9}}
	used.pckCertExtensions = &pcs.PckExtensions{FMSPC: "000000000000", PCEID: "0000"}
	n0 := len(w.getter.urls)
	err2 := TdxQuote(quote, used)
	vp.Reach("accept", err1 == nil)
	vp.Reach("reject", err1 != nil)
	vp.Assert("same-verdict-as-a-fresh-options-value", (err1 == nil) == (err2 == nil))
	vp.Assert("same-requests-as-a-fresh-options-value", len(w.getter.urls) == 2*n0)
}

// H12e: frame condition: a verification leaves every caller-visible field of the options as it was.
func H12e_OptionsFrame() {
	w := mkCollateralWorld(0, 1, 0, 1, 0, 0)
	quote := mkQuote(w.pki, 0)
	coll := vp.Choose("getCollateral", 2) == 1
	nilNow := vp.Choose("nilNow", 2) == 1
	modelNow = symTime("wallclock")
	opts := freshOpts(w, coll, false, symTimeSet("t"))
	if nilNow {
		opts.Now = nil
	}
	before := *opts
	_ = TdxQuote(quote, opts)
	vp.Assert("options-flags-unchanged", vp.And(opts.GetCollateral == before.GetCollateral, opts.CheckRevocations == before.CheckRevocations))
	vp.Assert("options-getter-and-roots-unchanged", vp.And(opts.Getter == before.Getter, opts.TrustedRoots == before.TrustedRoots))
	vp.Assert("options-time-set-unchanged", opts.Now == before.Now)
}

// H12f: an options value whose EXPORTED fields the caller changes between two verifications
// behaves like a fresh value with the new settings (nothing derived from the old settings survives).
func H12f_ReconfiguredOptions() {
	w := mkCollateralWorld(1, 1, 0, 1, 1, 0)
	quote := mkQuote(w.pki, 0)
	now := symTimeSet("t")
	// first use: some configuration
	shared := freshOpts(w, vp.Choose("firstGetCollateral", 2) == 1, false, now)
	if vp.Choose("firstRootsEmbedded", 2) == 1 {
		shared.TrustedRoots = nil
	}
	if TdxQuote(quote, shared) != nil {
		// histories that start with a rejected verification are covered by H12d's arbitrary pre-state
		return
	}
	n1 := len(w.getter.urls)
	// the caller reconfigures the same value
	coll := vp.Choose("secondGetCollateral", 2) == 1
	rev := vp.Choose("secondCheckRevocations", 2) == 1
	shared.GetCollateral, shared.CheckRevocations = coll, rev
	shared.TrustedRoots = w.pool
	if vp.Choose("secondRootsEmbedded", 2) == 1 {
		shared.TrustedRoots = nil
	}
	errShared := TdxQuote(quote, shared)
	n2 := len(w.getter.urls)
	fresh := &Options{GetCollateral: coll, CheckRevocations: rev, Getter: w.getter, TrustedRoots: shared.TrustedRoots, Now: now}
	errFresh := TdxQuote(quote, fresh)
	n3 := len(w.getter.urls)
	vp.Reach("accept", errFresh == nil)
	vp.Reach("reject", errFresh != nil)
	vp.Assert("reconfigured-options-give-the-verdict-of-fresh-options", (errShared == nil) == (errFresh == nil))
	vp.Assert("reconfigured-options-make-the-requests-of-fresh-options", n2-n1 == n3-n2)
	if rev && !coll {
		vp.Assert("revocation-without-collateral-fails-also-on-a-used-options-value", errShared != nil)
	}
}

// H12g: histories through the PROCESS. A quote's verdict does not depend on which other quotes
// were verified before it (fresh options each time): the same quote, verified before and after
// an unrelated quote whose certificates may carry the same names and keys, gets the same verdict.
func H12g_VerdictIndependentOfOtherQuotes() {
	w1 := mkPKI(0, nil)
	w2 := mkPKI(0, nil)
	root := mkCert("configured")
	pool := m_NewCertPool()
	m_AddCert(pool, root)
	quote1, quote2 := q.Valid("q1_", q.Shape{AuthLen: 0, Chain: w1.chainBytes}), q.Valid("q2_", q.Shape{AuthLen: 0, Chain: w2.chainBytes})
	now := symTimeSet("t")
	before := TdxQuote(quote2, &Options{TrustedRoots: pool, Now: now})
	other := TdxQuote(quote1, &Options{TrustedRoots: pool, Now: now})
	after := TdxQuote(quote2, &Options{TrustedRoots: pool, Now: now})
	vp.Reach("other-quote-accepted", other == nil)
	vp.Reach("quote-accepted", before == nil)
	vp.Reach("quote-rejected", before != nil)
	vp.Assert("same-verdict-before-and-after-another-quote", (before == nil) == (after == nil))
}

// thorough tier: monotonicity with a caller-supplied pool and QE authentication data
func T12h_Monotone_Pool1_Auth32() {
	w := mkCollateralWorld(1, 1, 0, 1, 1, 1)
	quote := mkQuote(w.pki, 32)
	now := symTimeSet("t")
	errRev := TdxQuote(quote, freshOpts(w, true, true, now))
	if errRev != nil {
		return
	}
	vp.Reach("accepted-with-revocation", true)
	vp.Assert("accepted-with-revocation-implies-accepted-with-collateral", TdxQuote(quote, freshOpts(w, true, false, now)) == nil)
	vp.Assert("accepted-with-revocation-implies-accepted-without-collateral", TdxQuote(quote, freshOpts(w, false, false, now)) == nil)
}
