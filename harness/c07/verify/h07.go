package verify

import (
	"github.com/google/go-tdx-guest/pcs"
	pb "github.com/google/go-tdx-guest/proto/tdx"
	vp "github.com/google/go-tdx-guest/zzvp"
)

//vp:merge github.com/google/go-tdx-guest/verify.applyMask

func symStatus(name string) pcs.TcbComponentStatus {
	return pcs.TcbComponentStatus(vp.Atom(name))
}

func symLevels(prefix string, k int) []pcs.TcbLevel {
	var out []pcs.TcbLevel
	for i := 0; i < k; i++ {
		n := prefix + string(rune('0'+i))
		out = append(out, pcs.TcbLevel{Tcb: pcs.Tcb{Isvsvn: vp.U32(n + "_isvsvn")}, TcbStatus: symStatus(n + "_status")})
	}
	return out
}

func lenBytes(name string, lo, hi int) []byte {
	return vp.Bytes(name, vp.IntRange(name+"_len", lo, hi))
}

// firstLevelUpToDate: the first level in listed order with isvsvn <= svn exists and is UpToDate.
func firstLevelUpToDate(levels []pcs.TcbLevel, svn uint32) bool {
	found, ok := false, false
	for i := range levels {
		m := levels[i].Tcb.Isvsvn <= svn
		ok = vp.IteBool(vp.And(!found, m), levels[i].TcbStatus == "UpToDate", ok)
		found = vp.Or(found, m)
	}
	return vp.And(found, ok)
}

// spec07: the statement, byte-wise (MISCSELECT is a little-endian 32-bit field of the report).
func spec07(report *pb.EnclaveReport, id *pcs.EnclaveIdentity) bool {
	ms, mm := id.Miscselect.Bytes, id.MiscselectMask.Bytes
	want := vp.And(len(ms) == 4, len(mm) == 4)
	if len(ms) == 4 && len(mm) == 4 {
		for i := 0; i < 4; i++ {
			rb := byte(report.MiscSelect >> (8 * uint(i)))
			want = vp.And(want, rb&mm[i] == ms[i])
		}
	}
	at, am := id.Attributes.Bytes, id.AttributesMask.Bytes
	want = vp.And(want, len(am) == 16, len(at) == 16)
	if len(am) == 16 && len(at) == 16 {
		for i := 0; i < 16; i++ {
			want = vp.And(want, report.Attributes[i]&am[i] == at[i])
		}
	}
	return vp.And(want, vp.BytesEq(id.Mrsigner.Bytes, report.MrSigner), report.IsvProdId == uint32(id.IsvProdID),
		firstLevelUpToDate(id.TcbLevels, report.IsvSvn))
}

func h07(k int) {
	report := &pb.EnclaveReport{
		MiscSelect: vp.U32("r_miscselect"),
		Attributes: vp.Bytes("r_attributes", 16),
		MrSigner:   vp.Bytes("r_mrsigner", 32),
		IsvProdId:  uint32(vp.U16("r_isvprodid")),
		IsvSvn:     uint32(vp.U16("r_isvsvn")),
	}
	id := &pcs.EnclaveIdentity{
		Miscselect:     pcs.HexBytes{Bytes: lenBytes("i_miscselect", 0, 5)},
		MiscselectMask: pcs.HexBytes{Bytes: lenBytes("i_miscselectmask", 0, 5)},
		Attributes:     pcs.HexBytes{Bytes: lenBytes("i_attributes", 15, 17)},
		AttributesMask: pcs.HexBytes{Bytes: lenBytes("i_attributesmask", 15, 17)},
		Mrsigner:       pcs.HexBytes{Bytes: lenBytes("i_mrsigner", 31, 33)},
		IsvProdID:      vp.U16("i_isvprodid"),
		TcbLevels:      symLevels("lvl", k),
	}
	err := verifyQeReport(report, &qeReportOptions{qeIdentity: id})

	want := spec07(report, id)
	if k > 0 {
		vp.Reach("accept", err == nil)
	}
	vp.Reach("reject", err != nil)
	vp.Assert("verdict-equals-statement", (err == nil) == want)
}

func H07a_QeIdentity_0levels() { h07(0) }
func H07b_QeIdentity_1level()  { h07(1) }
func H07c_QeIdentity_2levels() { h07(2) }
func H07d_QeIdentity_3levels() { h07(3) }
func T07e_QeIdentity_5levels() { h07(5) }
