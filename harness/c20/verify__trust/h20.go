package trust

import (
	"context"
	"errors"
	"time"

	vp "github.com/google/go-tdx-guest/zzvp"
)

// hCtx models the context returned by context.WithTimeout: Done() becomes
// ready at the deadline (model time).
type hCtx struct {
	done      <-chan struct{}
	deadline  int64
	has       bool
	cancelled int
}

var errDeadline = errors.New("context deadline exceeded")

func (c *hCtx) Deadline() (time.Time, bool) { return time.Time{}, false }
func (c *hCtx) Done() <-chan struct{}       { return c.done }
func (c *hCtx) Err() error {
	if c.has && (c.cancelled > 0 || vp.Now() >= c.deadline) {
		return errDeadline
	}
	return nil
}
func (c *hCtx) Value(key any) any           { return nil }

//vp:model context.Background
func m_Background() context.Context { return &hCtx{} }

//vp:model context.WithTimeout
func m_WithTimeout(parent context.Context, d time.Duration) (context.Context, context.CancelFunc) {
	c := &hCtx{done: vp.DoneChan(int64(d)), deadline: vp.Now() + int64(d), has: true}
	return c, func() { c.cancelled++ }
}

//vp:model context.WithDeadline
func m_WithDeadline(parent context.Context, d time.Time) (context.Context, context.CancelFunc) {
	left := d.Sub(m_Now())
	c := &hCtx{done: vp.DoneChan(int64(left)), deadline: vp.Now() + int64(left), has: true}
	return c, func() { c.cancelled++ }
}

// The wall clock is the model clock.
//
//vp:model time.Now
func m_Now() time.Time { return vp.ClockTime(vp.Now()) }

//vp:model time.Since
func m_Since(t time.Time) time.Duration { return m_Now().Sub(t) }

//vp:model time.Until
func m_Until(t time.Time) time.Duration { return t.Sub(m_Now()) }

//vp:model time.After
func m_After(d time.Duration) <-chan time.Time { return vp.TimerChan(int64(d)) }

// The other ways of waiting the standard library offers, should the code under test use them.
//
//vp:model time.NewTimer
func m_NewTimer(d time.Duration) *time.Timer { return &time.Timer{C: vp.TimerChan(int64(d))} }

//vp:model (*time.Timer).Stop
func m_TimerStop(t *time.Timer) bool { return true }

//vp:model (*time.Timer).Reset
func m_TimerReset(t *time.Timer, d time.Duration) bool {
	t.C = vp.TimerChan(int64(d))
	return true
}

//vp:model time.Sleep
func m_Sleep(d time.Duration) {
	if d > 0 {
		vp.Advance(int64(d))
	}
}

const maxCalls = 48

// hGetter is the wrapped getter: every call takes an arbitrary time >= 0 and
// fails or succeeds as the inputs say.
type hGetter struct {
	instant    bool // every call takes no time (long-run harness)
	cut        int  // > 0: only histories of at most cut calls are examined (later calls are assumed away)
	calls      int
	start, end [maxCalls]int64
	okAt       int
	header     map[string][]string
	body       []byte
}

var errGet = errors.New("get failed")

func (g *hGetter) Get(url string) (map[string][]string, []byte, error) {
	i := g.calls
	if g.cut > 0 {
		vp.Assume(i < g.cut)
	}
	g.calls++
	if i < maxCalls {
		g.start[i] = vp.Now()
	}
	if !g.instant {
		d := vp.I64("call_duration")
		vp.Assume(d >= 0)
		vp.Assume(d <= int64(1000*time.Hour))
		vp.Advance(d)
	}
	if i < maxCalls {
		g.end[i] = vp.Now()
	}
	if vp.Bool("call_succeeds") {
		g.okAt = i
		g.header = map[string][]string{"K": {"v"}}
		g.body = vp.Bytes("body", vp.IntRange("body_len", 0, 100))
		return g.header, g.body, nil
	}
	return nil, nil, errGet
}

func minI64(a, b int64) int64 { return vp.IteI64(a < b, a, b) }

// h20: K bounds the number of attempts explored (unwinding); the timeout is
// assumed small enough that the loop must end within K attempts.
func h20(K int) {
	vp.Unwind(4 * K)
	timeout := vp.I64("timeout")
	maxDelay := vp.I64("maxRetryDelay")
	vp.Assume(timeout >= 0)
	vp.Assume(timeout <= int64(100*time.Hour))
	vp.Assume(maxDelay > 0) // the statement's two requirements contradict each other for maxDelay <= 0
	vp.Assume(maxDelay <= int64(100*time.Hour))
	// each wait is at least min(4s, maxDelay): at most timeout/minWait + 2 attempts start
	minWait := minI64(int64(4*time.Second), maxDelay)
	vp.Assume(timeout <= int64(K-2)*minWait)
	g := &hGetter{okAt: -1}
	r := &RetryHTTPSGetter{Timeout: time.Duration(timeout), MaxRetryDelay: time.Duration(maxDelay), Getter: g}
	t0 := vp.Now()
	header, body, err := r.Get("https://example/collateral")
	t1 := vp.Now()
	vp.Assert("attempts-bounded", g.calls <= K)
	// the first attempt is always made, whatever the timeout
	vp.Assert("at-least-one-attempt", g.calls >= 1)
	vp.Reach("first-try-success", vp.And(err == nil, g.calls == 1))
	vp.Reach("zero-timeout-first-try-success", vp.And(err == nil, timeout == 0))
	vp.Reach("retry-then-success", vp.And(err == nil, g.calls > 1))
	vp.Reach("gives-up", err != nil)
	if err == nil {
		vp.Assert("success-is-the-last-call", g.okAt == g.calls-1)
		vp.Assert("first-success-returned-intact", vp.And(vp.SameRef(header, g.header), vp.SameRef(body, g.body)))
	} else {
		vp.Assert("error-only-if-no-call-succeeded", g.okAt == -1)
		vp.Assert("no-data-with-error", vp.And(header == nil, body == nil))
		// gives up no later than the deadline, or the end of the attempt that was in flight at the deadline
		last := g.end[g.calls-1]
		vp.Assert("gives-up-by-deadline-or-end-of-attempt-in-flight", vp.Or(t1 <= t0+timeout, t1 == last))
	}
	for i := 1; i < g.calls && i < maxCalls; i++ {
		wait := g.start[i] - g.end[i-1]
		vp.Assert("wait-not-longer-than-max-retry-delay", wait <= maxDelay)
		vp.Assert("no-busy-loop", wait > 0)
		// waits grow 4s, 8s, ... capped at the maximum
		vp.Assert("no-attempt-starts-after-the-deadline", g.start[i] <= t0+timeout)
	}
}

func H20a_K6()  { h20(6) }
func T20b_K12() { h20(12) }

// H20c: the default getter's configuration.
func H20c_Default() {
	d, ok := DefaultHTTPSGetter().(*RetryHTTPSGetter)
	vp.Assert("default-is-retrying", ok)
	if ok {
		_, simple := d.Getter.(*SimpleHTTPSGetter)
		vp.Assert("default-config", vp.And(d.Timeout == 2*time.Minute, d.MaxRetryDelay == 30*time.Second, simple))
	}
}

// H20d: many attempts. A small maximum delay (1..1000 ns) and a timeout that allows up to 38 waits,
// calls that take no time: the waiting discipline must hold on the 33rd, 34th, ... wait as on the first
// (a back-off computed by shifting wraps around there).
func H20d_ManyAttempts() {
	const K = 40
	vp.Unwind(4 * K)
	maxDelay := vp.I64("maxRetryDelay")
	vp.Assume(maxDelay >= 1)
	vp.Assume(maxDelay <= 1000)
	waits := vp.I64("waits_allowed")
	vp.Assume(waits >= 0)
	vp.Assume(waits <= K-2)
	timeout := waits*maxDelay + vp.I64("slack")%1 // exactly waits * maxDelay
	g := &hGetter{okAt: -1, instant: true}
	r := &RetryHTTPSGetter{Timeout: time.Duration(timeout), MaxRetryDelay: time.Duration(maxDelay), Getter: g}
	t0 := vp.Now()
	_, _, err := r.Get("https://example/collateral")
	t1 := vp.Now()
	vp.Assert("attempts-bounded", g.calls <= K)
	vp.Reach("more-than-34-attempts", g.calls > 34)
	vp.Reach("gives-up-after-many-attempts", vp.And(err != nil, g.calls > 34))
	if err != nil {
		vp.Assert("gives-up-by-the-deadline", t1 <= t0+timeout)
	}
	for i := 1; i < g.calls && i < maxCalls; i++ {
		wait := g.start[i] - g.end[i-1]
		vp.Assert("wait-not-longer-than-max-retry-delay", wait <= maxDelay)
		vp.Assert("no-busy-loop", wait > 0)
	}
}

// H20f: a maximum retry delay of zero (the quantifier's grid includes it). "Never in a busy loop"
// cannot be met then (a wait can be neither longer than 0 nor positive), but the cap is unambiguous:
// no wait may exceed the configured maximum, i.e. every wait is 0; a first success is still returned
// intact. Only the first 5 attempts are examined (with waits of 0 the number of attempts is bounded
// by the duration of the calls alone; when the deadline and the 0-delay timer are ready together Go
// picks at random).
func H20f_ZeroMaxDelay() {
	const K = 5
	vp.Unwind(4 * K)
	timeout := vp.I64("timeout")
	vp.Assume(timeout >= 0)
	vp.Assume(timeout <= int64(100*time.Hour))
	g := &hGetter{okAt: -1, cut: K}
	r := &RetryHTTPSGetter{Timeout: time.Duration(timeout), MaxRetryDelay: 0, Getter: g}
	header, body, err := r.Get("https://example/collateral")
	vp.Assert("at-least-one-attempt", g.calls >= 1)
	vp.Reach("zero-max-delay-retry-then-success", vp.And(err == nil, g.calls > 2))
	vp.Reach("zero-max-delay-gives-up", vp.And(err != nil, g.calls > 1))
	if err == nil {
		vp.Assert("success-is-the-last-call", g.okAt == g.calls-1)
		vp.Assert("first-success-returned-intact", vp.And(vp.SameRef(header, g.header), vp.SameRef(body, g.body)))
	} else {
		vp.Assert("error-only-if-no-call-succeeded", g.okAt == -1)
	}
	for i := 1; i < g.calls && i < maxCalls; i++ {
		wait := g.start[i] - g.end[i-1]
		vp.Assert("wait-not-longer-than-max-retry-delay", wait <= 0)
	}
}

// H20e: history. A getter value that was used before (any outcome, any time ago) treats the next
// request like a fresh getter: it retries, and returns a success that comes within the timeout.
func H20e_ReusedGetter() {
	vp.Unwind(24)
	timeout := vp.I64("timeout")
	vp.Assume(timeout >= int64(20*time.Second))
	vp.Assume(timeout <= int64(100*time.Hour))
	maxDelay := vp.I64("maxRetryDelay")
	vp.Assume(maxDelay >= int64(time.Second))
	vp.Assume(maxDelay <= int64(4*time.Second))
	g1 := &scriptGetter{failures: vp.Choose("firstFailures", 2)}
	r := &RetryHTTPSGetter{Timeout: time.Duration(timeout), MaxRetryDelay: time.Duration(maxDelay), Getter: g1}
	// first use: succeeds at once or after one retry
	_, _, err1 := r.Get("https://example/first")
	vp.Assert("first-use-succeeds", err1 == nil)
	// any amount of time passes
	idle := vp.I64("idle")
	vp.Assume(idle >= 0)
	vp.Assume(idle <= int64(1000*time.Hour))
	vp.Advance(idle)
	// second use: two failures, then success - 3 attempts, at most 2 * 4 s of waiting, well inside the timeout
	g2 := &scriptGetter{failures: 2}
	r.Getter = g2
	_, body, err2 := r.Get("https://example/second")
	vp.Reach("second-request-after-the-first-deadline", idle > timeout)
	vp.Assert("a-used-getter-still-retries", err2 == nil && g2.calls == 3)
	vp.Assert("a-used-getter-returns-the-response", err2 != nil || len(body) == 1)
}

type scriptGetter struct{ failures, calls int }

func (g *scriptGetter) Get(url string) (map[string][]string, []byte, error) {
	g.calls++
	if g.calls <= g.failures {
		return nil, nil, errGet
	}
	return map[string][]string{}, []byte{7}, nil
}
