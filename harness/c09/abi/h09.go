package abi

import (
	pb "github.com/google/go-tdx-guest/proto/tdx"
	vp "github.com/google/go-tdx-guest/zzvp"
	"github.com/google/go-tdx-guest/zzvp/q"
)

// The offsets below are this harness's own table of the TDX v4 quote layout
// (Intel TDX DCAP quote format, version 4); nothing is taken from package abi.

func u16at(b []byte, o int) int { return int(b[o]) | int(b[o+1])<<8 }
func u32at(b []byte, o int) int {
	return int(b[o]) | int(b[o+1])<<8 | int(b[o+2])<<16 | int(b[o+3])<<24
}

// H09a: for every byte string the parser accepts, serialising the parsed
// quote reproduces the input byte for byte.
func H09a_ParseThenSerialise() {
	L := vp.IntRange("L", 0, 1<<20)
	b := vp.Bytes("b", L)
	q, err := QuoteToProto(b)
	vp.Reach("accept", err == nil)
	vp.Reach("reject", err != nil)
	if err != nil {
		return
	}
	out, err2 := QuoteToAbiBytes(q)
	vp.Assert("reserialise-ok", err2 == nil)
	if err2 != nil {
		return
	}
	vp.Assert("same-length", len(out) == L)
	i := vp.IntRange("i", 0, 1<<20)
	vp.Assume(i < L)
	vp.Assume(i < len(out))
	vp.ForkReads(true)
	vp.Assert("same-byte", out[i] == b[i])
}

// sameAt: field equals b[off:off+n] (compared at a symbolic position).
func sameAt(label string, field, b []byte, off, n int) {
	vp.Assert(label+"-len", len(field) == n)
	j := vp.IntRange("j_"+label, 0, 1<<20)
	vp.Assume(j < n)
	vp.Assume(j < len(field))
	vp.Assert(label, field[j] == b[off+j])
}

// H09b: the parser accepts exactly the byte strings that follow the v4
// layout, and every field of the result is the corresponding slice of the input.
func H09b_AcceptIffLayout_FieldsAreSlices() {
	L := vp.IntRange("L", 0, 1<<20)
	b := vp.Bytes("b", L)
	res, err := QuoteToProto(b)
	if L < 1226 {
		// shorter than the fixed parts of a v4 quote
		vp.Assert("too-short-rejected", err != nil)
		return
	}
	S := u32at(b, 632)
	A := u16at(b, 1218)
	wf := vp.And(
		u16at(b, 0) == 4, u16at(b, 2) == 2, u32at(b, 4) == 0x81,
		S <= L-636, S >= 590,
		u16at(b, 764) == 6, u32at(b, 766) == S-134,
		590+A <= S,
	)
	if !wf {
		vp.Assert("malformed-rejected", err != nil)
		return
	}
	C := S - 590 - A
	wf2 := vp.And(u16at(b, 1220+A) == 5, u32at(b, 1222+A) == C)
	vp.Reach("well-formed", wf2)
	vp.Assert("accept-iff-layout", (err == nil) == wf2)
	if err != nil {
		return
	}
	quote := res.(*pb.QuoteV4)
	h, body, sd := quote.Header, quote.TdQuoteBody, quote.SignedData
	vp.Assert("header-ints", vp.And(h.Version == 4, h.AttestationKeyType == 2, h.TeeType == 0x81))
	sameAt("pcesvn", h.PceSvn, b, 8, 2)
	sameAt("qesvn", h.QeSvn, b, 10, 2)
	sameAt("qevendor", h.QeVendorId, b, 12, 16)
	sameAt("userdata", h.UserData, b, 28, 20)
	sameAt("teetcbsvn", body.TeeTcbSvn, b, 48, 16)
	sameAt("mrseam", body.MrSeam, b, 64, 48)
	sameAt("mrsignerseam", body.MrSignerSeam, b, 112, 48)
	sameAt("seamattr", body.SeamAttributes, b, 160, 8)
	sameAt("tdattr", body.TdAttributes, b, 168, 8)
	sameAt("xfam", body.Xfam, b, 176, 8)
	sameAt("mrtd", body.MrTd, b, 184, 48)
	sameAt("mrconfigid", body.MrConfigId, b, 232, 48)
	sameAt("mrowner", body.MrOwner, b, 280, 48)
	sameAt("mrownerconfig", body.MrOwnerConfig, b, 328, 48)
	vp.Assert("four-rtmrs", len(body.Rtmrs) == 4)
	if len(body.Rtmrs) == 4 {
		sameAt("rtmr0", body.Rtmrs[0], b, 376, 48)
		sameAt("rtmr1", body.Rtmrs[1], b, 424, 48)
		sameAt("rtmr2", body.Rtmrs[2], b, 472, 48)
		sameAt("rtmr3", body.Rtmrs[3], b, 520, 48)
	}
	sameAt("reportdata", body.ReportData, b, 568, 64)
	vp.Assert("signed-data-size", int(quote.SignedDataSize) == S)
	sameAt("signature", sd.Signature, b, 636, 64)
	sameAt("attkey", sd.EcdsaAttestationKey, b, 700, 64)
	cd := sd.CertificationData
	vp.Assert("cert-data-ints", vp.And(cd.CertificateDataType == 6, int(cd.Size) == S-134))
	qr := cd.QeReportCertificationData
	r := qr.QeReport
	sameAt("qe-cpusvn", r.CpuSvn, b, 770, 16)
	vp.Assert("qe-miscselect", int(r.MiscSelect) == u32at(b, 786))
	sameAt("qe-res1", r.Reserved1, b, 790, 28)
	sameAt("qe-attributes", r.Attributes, b, 818, 16)
	sameAt("qe-mrenclave", r.MrEnclave, b, 834, 32)
	sameAt("qe-res2", r.Reserved2, b, 866, 32)
	sameAt("qe-mrsigner", r.MrSigner, b, 898, 32)
	sameAt("qe-res3", r.Reserved3, b, 930, 96)
	vp.Assert("qe-isv", vp.And(int(r.IsvProdId) == u16at(b, 1026), int(r.IsvSvn) == u16at(b, 1028)))
	sameAt("qe-res4", r.Reserved4, b, 1030, 60)
	sameAt("qe-reportdata", r.ReportData, b, 1090, 64)
	sameAt("qe-signature", qr.QeReportSignature, b, 1154, 64)
	vp.Assert("auth-size", int(qr.QeAuthData.ParsedDataSize) == A)
	sameAt("auth-data", qr.QeAuthData.Data, b, 1220, A)
	pc := qr.PckCertificateChainData
	vp.Assert("pck-ints", vp.And(pc.CertificateDataType == 5, int(pc.Size) == C))
	sameAt("pck-chain", pc.PckCertChain, b, 1226+A, C)
	E := L - 636 - S
	if E == 0 {
		vp.Assert("no-extra", len(quote.ExtraBytes) == 0)
	} else {
		sameAt("extra", quote.ExtraBytes, b, 636+S, E)
	}
}

func sameField(label string, x, y []byte) {
	vp.Assert(label+"-len", len(x) == len(y))
	j := vp.IntRange("j_"+label, 0, 1<<20)
	vp.Assume(j < len(x))
	vp.Assume(j < len(y))
	vp.Assert(label, x[j] == y[j])
}

// H09c: every well-formed message survives serialise-then-parse unchanged.
func H09c_SerialiseThenParse() {
	A := vp.IntRange("A", 0, 65535)
	C := vp.IntRange("C", 0, 1<<19)
	var extra []byte
	if vp.Choose("hasExtra", 2) == 1 {
		extra = vp.Bytes("extra", vp.IntRange("E", 1, 1<<18))
	}
	m := q.Valid("m_", q.Shape{AuthLen: A, Chain: vp.Bytes("chain", C), Extra: extra})
	// the size fields of a well-formed message agree with the actual lengths
	m.SignedDataSize = uint32(590 + A + C)
	m.SignedData.CertificationData.Size = uint32(590 + A + C - 134)
	raw, err := QuoteToAbiBytes(m)
	vp.Assert("serialises", err == nil)
	if err != nil {
		return
	}
	vp.Assert("length", len(raw) == 636+590+A+C+len(extra))
	vp.ForkReads(true)
	res, err := QuoteToProto(raw)
	vp.Assert("parses-back", err == nil)
	if err != nil {
		return
	}
	p := res.(*pb.QuoteV4)
	vp.Assert("ints", vp.And(p.Header.Version == 4, p.Header.AttestationKeyType == 2, p.Header.TeeType == 0x81,
		p.SignedDataSize == m.SignedDataSize,
		p.SignedData.CertificationData.CertificateDataType == 6, p.SignedData.CertificationData.Size == m.SignedData.CertificationData.Size))
	sameField("pcesvn", p.Header.PceSvn, m.Header.PceSvn)
	sameField("qesvn", p.Header.QeSvn, m.Header.QeSvn)
	sameField("qevendor", p.Header.QeVendorId, m.Header.QeVendorId)
	sameField("userdata", p.Header.UserData, m.Header.UserData)
	pbdy, mbdy := p.TdQuoteBody, m.TdQuoteBody
	sameField("teetcbsvn", pbdy.TeeTcbSvn, mbdy.TeeTcbSvn)
	sameField("mrseam", pbdy.MrSeam, mbdy.MrSeam)
	sameField("mrsignerseam", pbdy.MrSignerSeam, mbdy.MrSignerSeam)
	sameField("seamattr", pbdy.SeamAttributes, mbdy.SeamAttributes)
	sameField("tdattr", pbdy.TdAttributes, mbdy.TdAttributes)
	sameField("xfam", pbdy.Xfam, mbdy.Xfam)
	sameField("mrtd", pbdy.MrTd, mbdy.MrTd)
	sameField("mrconfigid", pbdy.MrConfigId, mbdy.MrConfigId)
	sameField("mrowner", pbdy.MrOwner, mbdy.MrOwner)
	sameField("mrownerconfig", pbdy.MrOwnerConfig, mbdy.MrOwnerConfig)
	vp.Assert("rtmr-count", len(pbdy.Rtmrs) == 4)
	for i := 0; i < 4 && i < len(pbdy.Rtmrs); i++ {
		sameField("rtmr"+string(rune('0'+i)), pbdy.Rtmrs[i], mbdy.Rtmrs[i])
	}
	sameField("reportdata", pbdy.ReportData, mbdy.ReportData)
	sameField("signature", p.SignedData.Signature, m.SignedData.Signature)
	sameField("attkey", p.SignedData.EcdsaAttestationKey, m.SignedData.EcdsaAttestationKey)
	pq, mq := p.SignedData.CertificationData.QeReportCertificationData, m.SignedData.CertificationData.QeReportCertificationData
	sameField("qe-cpusvn", pq.QeReport.CpuSvn, mq.QeReport.CpuSvn)
	vp.Assert("qe-ints", vp.And(pq.QeReport.MiscSelect == mq.QeReport.MiscSelect, pq.QeReport.IsvProdId == mq.QeReport.IsvProdId, pq.QeReport.IsvSvn == mq.QeReport.IsvSvn))
	sameField("qe-res1", pq.QeReport.Reserved1, mq.QeReport.Reserved1)
	sameField("qe-attributes", pq.QeReport.Attributes, mq.QeReport.Attributes)
	sameField("qe-mrenclave", pq.QeReport.MrEnclave, mq.QeReport.MrEnclave)
	sameField("qe-res2", pq.QeReport.Reserved2, mq.QeReport.Reserved2)
	sameField("qe-mrsigner", pq.QeReport.MrSigner, mq.QeReport.MrSigner)
	sameField("qe-res3", pq.QeReport.Reserved3, mq.QeReport.Reserved3)
	sameField("qe-res4", pq.QeReport.Reserved4, mq.QeReport.Reserved4)
	sameField("qe-reportdata", pq.QeReport.ReportData, mq.QeReport.ReportData)
	sameField("qe-signature", pq.QeReportSignature, mq.QeReportSignature)
	vp.Assert("auth-size", pq.QeAuthData.ParsedDataSize == mq.QeAuthData.ParsedDataSize)
	sameField("auth-data", pq.QeAuthData.Data, mq.QeAuthData.Data)
	vp.Assert("pck-ints", vp.And(pq.PckCertificateChainData.CertificateDataType == 5, pq.PckCertificateChainData.Size == mq.PckCertificateChainData.Size))
	sameField("pck-chain", pq.PckCertificateChainData.PckCertChain, mq.PckCertificateChainData.PckCertChain)
	if extra == nil {
		vp.Assert("no-extra", len(p.ExtraBytes) == 0)
	} else {
		sameField("extra", p.ExtraBytes, extra)
	}
}

// H09d: the exported partial serialisers place every field at its layout offset.
func H09d_PartialSerialisers() {
	m := q.Valid("m_", q.Shape{AuthLen: 0, Chain: vp.Bytes("chain", 0)})
	hb, err := HeaderToAbiBytes(m.Header)
	vp.Assert("header-ok", vp.And(err == nil, len(hb) == 48))
	if err == nil && len(hb) == 48 {
		vp.Assert("header-ints", vp.And(u16at(hb, 0) == 4, u16at(hb, 2) == 2, u32at(hb, 4) == 0x81))
		sameAt("h-pcesvn", m.Header.PceSvn, hb, 8, 2)
		sameAt("h-qesvn", m.Header.QeSvn, hb, 10, 2)
		sameAt("h-qevendor", m.Header.QeVendorId, hb, 12, 16)
		sameAt("h-userdata", m.Header.UserData, hb, 28, 20)
	}
	bb, err := TdQuoteBodyToAbiBytes(m.TdQuoteBody)
	vp.Assert("body-ok", vp.And(err == nil, len(bb) == 584))
	if err == nil && len(bb) == 584 {
		t := m.TdQuoteBody
		sameAt("b-teetcbsvn", t.TeeTcbSvn, bb, 0, 16)
		sameAt("b-mrseam", t.MrSeam, bb, 16, 48)
		sameAt("b-mrsignerseam", t.MrSignerSeam, bb, 64, 48)
		sameAt("b-seamattr", t.SeamAttributes, bb, 112, 8)
		sameAt("b-tdattr", t.TdAttributes, bb, 120, 8)
		sameAt("b-xfam", t.Xfam, bb, 128, 8)
		sameAt("b-mrtd", t.MrTd, bb, 136, 48)
		sameAt("b-mrconfigid", t.MrConfigId, bb, 184, 48)
		sameAt("b-mrowner", t.MrOwner, bb, 232, 48)
		sameAt("b-mrownerconfig", t.MrOwnerConfig, bb, 280, 48)
		sameAt("b-rtmr0", t.Rtmrs[0], bb, 328, 48)
		sameAt("b-rtmr1", t.Rtmrs[1], bb, 376, 48)
		sameAt("b-rtmr2", t.Rtmrs[2], bb, 424, 48)
		sameAt("b-rtmr3", t.Rtmrs[3], bb, 472, 48)
		sameAt("b-reportdata", t.ReportData, bb, 520, 64)
	}
	r := m.SignedData.CertificationData.QeReportCertificationData.QeReport
	rb, err := EnclaveReportToAbiBytes(r)
	vp.Assert("report-ok", vp.And(err == nil, len(rb) == 384))
	if err == nil && len(rb) == 384 {
		sameAt("r-cpusvn", r.CpuSvn, rb, 0, 16)
		vp.Assert("r-ints", vp.And(u32at(rb, 16) == int(r.MiscSelect), u16at(rb, 256) == int(r.IsvProdId), u16at(rb, 258) == int(r.IsvSvn)))
		sameAt("r-res1", r.Reserved1, rb, 20, 28)
		sameAt("r-attributes", r.Attributes, rb, 48, 16)
		sameAt("r-mrenclave", r.MrEnclave, rb, 64, 32)
		sameAt("r-res2", r.Reserved2, rb, 96, 32)
		sameAt("r-mrsigner", r.MrSigner, rb, 128, 32)
		sameAt("r-res3", r.Reserved3, rb, 160, 96)
		sameAt("r-res4", r.Reserved4, rb, 260, 60)
		sameAt("r-reportdata", r.ReportData, rb, 320, 64)
	}
}
