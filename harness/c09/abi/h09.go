package abi

import (
	vp "github.com/google/go-tdx-guest/zzvp"
)

// H09a: for every byte string the parser accepts, serialising the parsed
// quote reproduces the input byte for byte.
func H09a_ParseThenSerialise() {
	L := vp.IntRange("L", 0, 1<<20)
	b := vp.Bytes("b", L)
	q, err := QuoteToProto(b)
	vp.Reach("accept", err == nil)
	vp.Reach("reject", err != nil)
	if err != nil {
		return
	}
	out, err2 := QuoteToAbiBytes(q)
	vp.Assert("reserialise-ok", err2 == nil)
	if err2 != nil {
		return
	}
	vp.Assert("same-length", len(out) == L)
	i := vp.IntRange("i", 0, 1<<20)
	vp.Assume(i < L)
	vp.Assume(i < len(out))
	vp.ForkReads(true)
	vp.Assert("same-byte", out[i] == b[i])
}
