package smt

import (
	"sync"
	"bufio"
	"fmt"
	"io"
	"math/big"
	"os"
	"os/exec"
	"sort"
	"strings"
	"time"
)

type Result int

const (
	Unsat Result = iota
	Sat
	Unknown
)

func (r Result) String() string { return [...]string{"unsat", "sat", "unknown"}[r] }

// Solver drives one incremental solver process over a pipe. All definitions are
// emitted at the top level; queries use check-sat-assuming so no push/pop is
// needed and learned clauses are kept.
type Solver struct {
	Name    string
	tb      *Table
	cmd     *exec.Cmd
	in      io.WriteCloser
	out     *bufio.Reader
	emitted map[int]bool
	ufDecl  map[string]bool
	symDecl map[string]bool
	cache   map[string]Result
	log     io.Writer

	Queries   int
	CacheHits int
	Unknowns  int
	Errors    []string
	Time      time.Duration
	MaxTime   time.Duration
	timeoutMs int
	spec      SolverSpec
	Killed    int // queries ended by the watchdog (counted as unknown)
	Retries   int // unknown answers asked again with a longer limit
	lastKilled, lastErr bool
	usePush   bool // cvc5: emulate check-sat-assuming via push/pop (also fine)
	lastSatPushed bool // a cvc5 scope left open for get-value
}

type SolverSpec struct {
	Name      string // z3 | z3-new | cvc5
	TimeoutMs int
	LogFile   string
}

func NewSolver(tb *Table, spec SolverSpec) (*Solver, error) {
	s := &Solver{Name: spec.Name, tb: tb, cache: map[string]Result{}, timeoutMs: spec.TimeoutMs, spec: spec}
	if s.Name == "" {
		s.Name = "z3"
	}
	if spec.LogFile != "" {
		f, err := os.Create(spec.LogFile)
		if err == nil {
			s.log = f
		}
	}
	if err := s.start(); err != nil {
		return nil, err
	}
	return s, nil
}

// start launches the solver process with nothing defined.
func (s *Solver) start() error {
	spec := s.spec
	var cmd *exec.Cmd
	switch spec.Name {
	case "", "z3":
		cmd = exec.Command("z3", "-in", "-smt2")
	case "z3-new":
		cmd = exec.Command("z3-new", "-in", "-smt2")
	case "cvc5":
		cmd = exec.Command("cvc5", "--incremental", "--lang=smt2", "--produce-models", fmt.Sprintf("--tlimit-per=%d", spec.TimeoutMs))
	default:
		return fmt.Errorf("unknown solver %q", spec.Name)
	}
	in, err := cmd.StdinPipe()
	if err != nil {
		return err
	}
	outp, err := cmd.StdoutPipe()
	if err != nil {
		return err
	}
	cmd.Stderr = os.Stderr
	if err := cmd.Start(); err != nil {
		return err
	}
	s.cmd, s.in, s.out = cmd, in, bufio.NewReaderSize(outp, 1<<20)
	s.emitted, s.ufDecl, s.symDecl = map[int]bool{}, map[string]bool{}, map[string]bool{}
	s.lastSatPushed = false
	if s.Name == "cvc5" {
		s.usePush = true
		s.send("(set-logic ALL)\n")
	} else {
		s.send("(set-option :produce-models true)\n")
		if spec.TimeoutMs > 0 {
			s.send(fmt.Sprintf("(set-option :timeout %d)\n", spec.TimeoutMs))
		}
	}
	return nil
}

// watchdog kills the solver process when it does not answer within its own
// time limit plus a margin (z3 4.8 does not always honour :timeout). The
// returned function disarms it and reports whether it fired; after it fired
// the process has been replaced by a fresh one.
func (s *Solver) watchdog() func() bool {
	if s.timeoutMs <= 0 {
		return func() bool { return false }
	}
	var mu sync.Mutex
	fired := false
	cmd := s.cmd
	t := time.AfterFunc(time.Duration(s.timeoutMs)*time.Millisecond*3/2+5*time.Second, func() {
		mu.Lock()
		fired = true
		mu.Unlock()
		cmd.Process.Kill()
	})
	return func() bool {
		t.Stop()
		mu.Lock()
		f := fired
		mu.Unlock()
		if f {
			cmd.Wait()
			s.Killed++
			if err := s.start(); err != nil {
				s.Errors = append(s.Errors, "cannot restart solver: "+err.Error())
			}
		}
		return f
	}
}

func (s *Solver) Close() {
	if s.cmd == nil {
		return
	}
	s.send("(exit)\n")
	s.in.Close()
	done := make(chan struct{})
	go func() { s.cmd.Wait(); close(done) }()
	select {
	case <-done:
	case <-time.After(2 * time.Second):
		s.cmd.Process.Kill()
	}
	s.cmd = nil
}

func (s *Solver) send(txt string) {
	if s.log != nil {
		io.WriteString(s.log, txt)
	}
	io.WriteString(s.in, txt)
}

// define makes sure t (and everything below it) is known to the solver.
func (s *Solver) define(t *Term, sb *strings.Builder) {
	if s.emitted[t.ID] {
		return
	}
	// iterative post-order to avoid deep recursion
	type fr struct {
		t *Term
		i int
	}
	stack := []fr{{t, 0}}
	for len(stack) > 0 {
		f := &stack[len(stack)-1]
		if s.emitted[f.t.ID] {
			stack = stack[:len(stack)-1]
			continue
		}
		if f.i < len(f.t.Args) {
			c := f.t.Args[f.i]
			f.i++
			if !s.emitted[c.ID] {
				stack = append(stack, fr{c, 0})
			}
			continue
		}
		tt := f.t
		stack = stack[:len(stack)-1]
		s.emitted[tt.ID] = true
		switch tt.Op {
		case OConst:
		case OSym:
			if !s.symDecl[tt.Name] {
				s.symDecl[tt.Name] = true
				fmt.Fprintf(sb, "(declare-fun %s () %s)\n", symName(tt.Name), tt.S)
			}
		case OUF:
			if !s.ufDecl[tt.Name] {
				s.ufDecl[tt.Name] = true
				sig := s.tb.UFs[tt.Name]
				var as []string
				for _, a := range sig.Args {
					as = append(as, a.String())
				}
				fmt.Fprintf(sb, "(declare-fun %s (%s) %s)\n", symName(tt.Name), strings.Join(as, " "), sig.Ret)
			}
			fmt.Fprintf(sb, "(define-fun t%d () %s %s)\n", tt.ID, tt.S, Body(tt))
		default:
			fmt.Fprintf(sb, "(define-fun t%d () %s %s)\n", tt.ID, tt.S, Body(tt))
		}
	}
}

func (s *Solver) readLine() (string, error) {
	l, err := s.out.ReadString('\n')
	return strings.TrimSpace(l), err
}

// readSexp reads one balanced s-expression (possibly spanning lines).
func (s *Solver) readSexp() (string, error) {
	var sb strings.Builder
	depth := 0
	started := false
	inBar := false
	for {
		r, _, err := s.out.ReadRune()
		if err != nil {
			return sb.String(), err
		}
		if !started {
			if r == ' ' || r == '\n' || r == '\r' || r == '\t' {
				continue
			}
			started = true
			if r != '(' {
				// atom: read to end of line
				sb.WriteRune(r)
				rest, err := s.out.ReadString('\n')
				sb.WriteString(strings.TrimSpace(rest))
				return sb.String(), err
			}
		}
		sb.WriteRune(r)
		if r == '|' {
			inBar = !inBar
		}
		if inBar {
			continue
		}
		if r == '(' {
			depth++
		} else if r == ')' {
			depth--
			if depth == 0 {
				return sb.String(), nil
			}
		}
	}
}

func assumptionKey(as []*Term) string {
	ids := make([]int, 0, len(as))
	seen := map[int]bool{}
	for _, a := range as {
		if !seen[a.ID] {
			seen[a.ID] = true
			ids = append(ids, a.ID)
		}
	}
	sort.Ints(ids)
	var sb strings.Builder
	for _, id := range ids {
		fmt.Fprintf(&sb, "%d,", id)
	}
	return sb.String()
}

// Check decides satisfiability of the conjunction of the given Bool terms.
func (s *Solver) Check(as []*Term) Result {
	var lits []*Term
	for _, a := range as {
		if a.IsTrue() {
			continue
		}
		if a.IsFalse() {
			return Unsat
		}
		lits = append(lits, a)
	}
	if len(lits) == 0 {
		return Sat
	}
	key := assumptionKey(lits)
	if r, ok := s.cache[key]; ok {
		s.CacheHits++
		return r
	}
	r := s.checkNoCache(lits)
	s.cache[key] = r
	return r
}

// checkNoCache asks the solver; an "unknown" (time limit) answer is asked again
// once with three times the limit before it is reported.
func (s *Solver) checkNoCache(lits []*Term) Result {
	r := s.checkOnce(lits)
	if r != Unknown || s.timeoutMs <= 0 || s.Name == "cvc5" || s.lastKilled || s.lastErr || s.Retries >= 4 {
		// (at most four second attempts per solver process: a run with many hard queries is
		// inconclusive anyway and should say so soon)
		return r
	}
	s.Retries++
	base := s.timeoutMs
	s.timeoutMs = 3 * base
	s.send(fmt.Sprintf("(set-option :timeout %d)\n", s.timeoutMs))
	r = s.checkOnce(lits)
	s.timeoutMs = base
	if !s.lastKilled {
		s.send(fmt.Sprintf("(set-option :timeout %d)\n", base))
	}
	s.Unknowns-- // the first attempt is not a verdict
	return r
}

func (s *Solver) checkOnce(lits []*Term) Result {
	var sb strings.Builder
	for _, a := range lits {
		s.define(a, &sb)
	}
	if s.usePush {
		sb.WriteString("(push 1)\n")
		for _, a := range lits {
			fmt.Fprintf(&sb, "(assert %s)\n", Ref(a))
		}
		sb.WriteString("(check-sat)\n")
	} else {
		sb.WriteString("(check-sat-assuming (")
		for _, a := range lits {
			if a.Op == ONot && a.Args[0].Op != OConst {
				// make sure child is defined (it is, via define) and use literal form
				fmt.Fprintf(&sb, "(not %s) ", Ref(a.Args[0]))
			} else {
				sb.WriteString(Ref(a) + " ")
			}
		}
		sb.WriteString("))\n")
	}
	start := time.Now()
	disarm := s.watchdog()
	s.send(sb.String())
	res := Unknown
	hadErr := false
	killed := false
	for {
		line, err := s.readLine()
		if err != nil {
			if killed = disarm(); !killed {
				s.Errors = append(s.Errors, "solver pipe: "+err.Error())
			}
			hadErr = true
			break
		}
		if line == "" {
			continue
		}
		if strings.HasPrefix(line, "(error") {
			// z3 prints the error and carries on with the next command, so the
			// check-sat answer still follows; the answer is not trusted.
			s.Errors = append(s.Errors, line)
			hadErr = true
			continue
		}
		switch line {
		case "sat":
			res = Sat
		case "unsat":
			res = Unsat
		case "unknown", "timeout":
			res = Unknown
		default:
			s.Errors = append(s.Errors, "unexpected: "+line)
			hadErr = true
			continue
		}
		break
	}
	if !killed {
		if disarm() {
			killed, hadErr = true, true
		}
	}
	if hadErr {
		res = Unknown
	}
	d := time.Since(start)
	s.Time += d
	if d > s.MaxTime {
		s.MaxTime = d
	}
	s.Queries++
	if res == Unknown {
		s.Unknowns++
	}
	s.lastKilled, s.lastErr = killed, hadErr && !killed
	if killed {
		return res
	}
	if s.usePush && res != Sat {
		s.send("(pop 1)\n")
	}
	s.lastSatPushed = s.usePush && res == Sat
	return res
}

func (s *Solver) popIfNeeded() {
	if s.lastSatPushed {
		s.send("(pop 1)\n")
		s.lastSatPushed = false
	}
}

// Model: after a Sat answer from CheckModel, values of the requested terms.
// CheckModel runs an uncached check and, when sat, evaluates the given terms.
func (s *Solver) CheckModel(as []*Term, want []*Term) (Result, map[int]*big.Int) {
	var lits []*Term
	for _, a := range as {
		if a.IsTrue() {
			continue
		}
		if a.IsFalse() {
			return Unsat, nil
		}
		lits = append(lits, a)
	}
	var r Result
	if len(lits) == 0 {
		// need a solver state to evaluate in: check trivially
		lits = []*Term{s.tb.True()}
		var sb strings.Builder
		if s.usePush {
			sb.WriteString("(push 1)\n(check-sat)\n")
		} else {
			sb.WriteString("(check-sat)\n")
		}
		s.send(sb.String())
		line, _ := s.readLine()
		if line != "sat" {
			if s.usePush {
				s.send("(pop 1)\n")
			}
			return Unknown, nil
		}
		s.lastSatPushed = s.usePush
		r = Sat
	} else {
		r = s.checkNoCache(lits)
		s.cache[assumptionKey(lits)] = r
	}
	if r != Sat {
		return r, nil
	}
	vals := map[int]*big.Int{}
	// evaluate in chunks
	const chunk = 200
	for i := 0; i < len(want); i += chunk {
		j := i + chunk
		if j > len(want) {
			j = len(want)
		}
		var sb strings.Builder
		var need []*Term
		for _, t := range want[i:j] {
			if t.IsConst() {
				vals[t.ID] = t.Val
				continue
			}
			s.define(t, &sb)
			need = append(need, t)
		}
		if len(need) == 0 {
			continue
		}
		sb.WriteString("(get-value (")
		for _, t := range need {
			sb.WriteString(Ref(t) + " ")
		}
		sb.WriteString("))\n")
		disarm := s.watchdog()
		s.send(sb.String())
		sexp, err := s.readSexp()
		if disarm() {
			s.Unknowns++
			return Unknown, nil
		}
		if err != nil || strings.HasPrefix(sexp, "(error") {
			s.Errors = append(s.Errors, "get-value: "+sexp)
			s.popIfNeeded()
			return Unknown, nil
		}
		parsed := parseValues(sexp)
		if len(parsed) != len(need) {
			s.Errors = append(s.Errors, fmt.Sprintf("get-value: expected %d values, got %d: %.200s", len(need), len(parsed), sexp))
			s.popIfNeeded()
			return Unknown, nil
		}
		for k, t := range need {
			vals[t.ID] = parsed[k]
		}
	}
	s.popIfNeeded()
	return Sat, vals
}

// parseValues parses "((a v) (b v) ...)" returning the values in order.
func parseValues(s string) []*big.Int {
	var out []*big.Int
	// tokenise top-level pairs
	depth := 0
	start := -1
	inBar := false
	for i, r := range s {
		if r == '|' {
			inBar = !inBar
		}
		if inBar {
			continue
		}
		if r == '(' {
			depth++
			if depth == 2 {
				start = i
			}
		} else if r == ')' {
			if depth == 2 && start >= 0 {
				pair := s[start+1 : i]
				out = append(out, parseValueOfPair(pair))
				start = -1
			}
			depth--
		}
	}
	return out
}

func parseValueOfPair(pair string) *big.Int {
	// the value is the last token / s-expr of the pair
	pair = strings.TrimSpace(pair)
	var val string
	if strings.HasSuffix(pair, ")") {
		// (_ bvN w) form
		d := 0
		for i := len(pair) - 1; i >= 0; i-- {
			if pair[i] == ')' {
				d++
			} else if pair[i] == '(' {
				d--
				if d == 0 {
					val = pair[i:]
					break
				}
			}
		}
	} else {
		i := strings.LastIndexAny(pair, " \t\n")
		val = pair[i+1:]
	}
	v := new(big.Int)
	switch {
	case val == "true":
		v.SetInt64(1)
	case val == "false":
		v.SetInt64(0)
	case strings.HasPrefix(val, "#x"):
		v.SetString(val[2:], 16)
	case strings.HasPrefix(val, "#b"):
		v.SetString(val[2:], 2)
	case strings.HasPrefix(val, "(_ bv"):
		f := strings.Fields(val[5:])
		v.SetString(f[0], 10)
	default:
		return nil
	}
	return v
}
