package smt

import "testing"

func TestBasic(t *testing.T) {
	for _, name := range []string{"z3", "z3-new", "cvc5"} {
		tb := NewTable()
		s, err := NewSolver(tb, SolverSpec{Name: name, TimeoutMs: 10000})
		if err != nil {
			t.Fatal(err)
		}
		x := tb.Sym("x", BV(32))
		y := tb.Sym("y", BV(32))
		c := tb.Eq(tb.Add(x, y), tb.Const(10, 32))
		d := tb.Ult(x, tb.Const(3, 32))
		if r := s.Check([]*Term{c, d}); r != Sat {
			t.Fatalf("%s: expected sat got %v %v", name, r, s.Errors)
		}
		r, m := s.CheckModel([]*Term{c, d}, []*Term{x, y})
		if r != Sat {
			t.Fatalf("%s model: %v %v", name, r, s.Errors)
		}
		if (m[x.ID].Uint64()+m[y.ID].Uint64())&0xffffffff != 10 {
			t.Fatalf("%s bad model %v %v", name, m[x.ID], m[y.ID])
		}
		e := tb.Not(tb.Ult(x, tb.Const(5, 32)))
		if r := s.Check([]*Term{c, d, e}); r != Unsat {
			t.Fatalf("%s: expected unsat got %v", name, r)
		}
		a := tb.Sym("A", ArrSort)
		f := tb.UF("H", BV(8), tb.Select(a, tb.Const(3, 64)))
		g := tb.UF("H", BV(8), tb.Select(a, tb.Add(tb.Const(1, 64), tb.Const(2, 64))))
		if r := s.Check([]*Term{tb.Not(tb.Eq(f, g))}); r != Unsat {
			t.Fatalf("%s: uf expected unsat got %v", name, r)
		}
		s.Close()
		t.Logf("%s ok queries=%d time=%v", name, s.Queries, s.Time)
	}
}
