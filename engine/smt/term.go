// Package smt is a small hash-consed term library for QF_AUFBV with an
// SMT-LIB2 printer. Terms are immutable and shared; every term has a unique id
// so that solver-side definitions and query caches can be keyed by it.
package smt

import (
	"fmt"
	"math/big"
	"sort"
	"strconv"
	"strings"
	"sync"
)

type Kind uint8

const (
	KBool Kind = iota
	KBV
	KArr // Array (_ BitVec 64) (_ BitVec 8)
)

type Sort struct {
	K Kind
	W int
}

var BoolSort = Sort{K: KBool}
var ArrSort = Sort{K: KArr}

func BV(w int) Sort { return Sort{K: KBV, W: w} }

func (s Sort) String() string {
	switch s.K {
	case KBool:
		return "Bool"
	case KBV:
		return fmt.Sprintf("(_ BitVec %d)", s.W)
	default:
		return "(Array (_ BitVec 64) (_ BitVec 8))"
	}
}

type Op uint8

const (
	OConst Op = iota
	OSym
	ONot
	OAnd
	OOr
	OIte
	OEq
	OAdd
	OSub
	OMul
	OUDiv
	OURem
	OSDiv
	OSRem
	OBAnd
	OBOr
	OBXor
	OBNot
	ONeg
	OShl
	OLshr
	OAshr
	OUlt
	OUle
	OSlt
	OSle
	OConcat
	OExtract
	OZext
	OSext
	OSelect
	OUF
)

var opNames = map[Op]string{
	ONot: "not", OAnd: "and", OOr: "or", OIte: "ite", OEq: "=",
	OAdd: "bvadd", OSub: "bvsub", OMul: "bvmul", OUDiv: "bvudiv", OURem: "bvurem",
	OSDiv: "bvsdiv", OSRem: "bvsrem", OBAnd: "bvand", OBOr: "bvor", OBXor: "bvxor",
	OBNot: "bvnot", ONeg: "bvneg", OShl: "bvshl", OLshr: "bvlshr", OAshr: "bvashr",
	OUlt: "bvult", OUle: "bvule", OSlt: "bvslt", OSle: "bvsle", OConcat: "concat",
	OSelect: "select",
}

type Term struct {
	ID   int
	Op   Op
	S    Sort
	Args []*Term
	Val  *big.Int // OConst (Bool: 0/1)
	Name string   // OSym, OUF
	Hi   int      // OExtract hi ; OZext/OSext: extra bits
	Lo   int
}

// Table is the hash-consing table. Safe for concurrent use.
type Table struct {
	mu    sync.Mutex
	byKey map[string]*Term
	terms []*Term
	// declared UFs: name -> signature
	UFs map[string]UFSig
	smallConst map[[2]uint64]*Term
}

type UFSig struct {
	Args []Sort
	Ret  Sort
}

func NewTable() *Table {
	t := &Table{byKey: map[string]*Term{}, UFs: map[string]UFSig{}, smallConst: map[[2]uint64]*Term{}}
	return t
}

func (tb *Table) NumTerms() int { tb.mu.Lock(); defer tb.mu.Unlock(); return len(tb.terms) }

func (tb *Table) intern(op Op, s Sort, args []*Term, val *big.Int, name string, hi, lo int) *Term {
	var buf [96]byte
	b := buf[:0]
	b = append(b, byte(op), byte(s.K))
	b = strconv.AppendInt(b, int64(s.W), 36)
	b = append(b, '|')
	for _, a := range args {
		b = strconv.AppendInt(b, int64(a.ID), 36)
		b = append(b, ',')
	}
	if val != nil {
		b = append(b, 'v')
		if val.IsUint64() {
			b = strconv.AppendUint(b, val.Uint64(), 36)
		} else {
			b = val.Append(b, 36)
		}
	}
	if name != "" {
		b = append(b, 'n')
		b = append(b, name...)
	}
	if op == OExtract || op == OZext || op == OSext {
		b = append(b, '|')
		b = strconv.AppendInt(b, int64(hi), 36)
		b = append(b, ':')
		b = strconv.AppendInt(b, int64(lo), 36)
	}
	tb.mu.Lock()
	defer tb.mu.Unlock()
	if t, ok := tb.byKey[string(b)]; ok {
		return t
	}
	t := &Term{ID: len(tb.terms), Op: op, S: s, Args: args, Val: val, Name: name, Hi: hi, Lo: lo}
	tb.terms = append(tb.terms, t)
	tb.byKey[string(b)] = t
	return t
}

func (t *Term) IsConst() bool { return t.Op == OConst }
func (t *Term) IsTrue() bool  { return t.Op == OConst && t.S.K == KBool && t.Val.Sign() != 0 }
func (t *Term) IsFalse() bool { return t.Op == OConst && t.S.K == KBool && t.Val.Sign() == 0 }

// Uint64 returns the constant value (low 64 bits).
func (t *Term) Uint64() uint64 { return t.Val.Uint64() }

// Int64 returns the constant interpreted as a signed value of its width.
func (t *Term) Int64() int64 {
	v := new(big.Int).Set(t.Val)
	if t.S.K == KBV && v.Bit(t.S.W-1) == 1 {
		v.Sub(v, new(big.Int).Lsh(big.NewInt(1), uint(t.S.W)))
	}
	return v.Int64()
}

var one = big.NewInt(1)

func mask(w int) *big.Int {
	m := new(big.Int).Lsh(one, uint(w))
	return m.Sub(m, one)
}

func norm(v *big.Int, w int) *big.Int {
	r := new(big.Int).And(v, mask(w))
	return r
}

func signed(v *big.Int, w int) *big.Int {
	r := new(big.Int).Set(v)
	if r.Bit(w-1) == 1 {
		r.Sub(r, new(big.Int).Lsh(one, uint(w)))
	}
	return r
}

func (tb *Table) Bool(b bool) *Term {
	v := big.NewInt(0)
	if b {
		v = big.NewInt(1)
	}
	return tb.intern(OConst, BoolSort, nil, v, "", 0, 0)
}

func (tb *Table) True() *Term  { return tb.Bool(true) }
func (tb *Table) False() *Term { return tb.Bool(false) }

func (tb *Table) ConstBig(v *big.Int, w int) *Term {
	if w <= 64 && v.Sign() >= 0 && v.IsUint64() {
		return tb.Const(v.Uint64(), w)
	}
	return tb.intern(OConst, BV(w), nil, norm(v, w), "", 0, 0)
}

func (tb *Table) Const(v uint64, w int) *Term {
	if w <= 64 {
		if w < 64 {
			v &= (1 << uint(w)) - 1
		}
		k := [2]uint64{v, uint64(w)}
		tb.mu.Lock()
		t, ok := tb.smallConst[k]
		tb.mu.Unlock()
		if ok {
			return t
		}
		t = tb.intern(OConst, BV(w), nil, new(big.Int).SetUint64(v), "", 0, 0)
		tb.mu.Lock()
		tb.smallConst[k] = t
		tb.mu.Unlock()
		return t
	}
	return tb.ConstBig(new(big.Int).SetUint64(v), w)
}

func (tb *Table) ConstI(v int64, w int) *Term {
	return tb.ConstBig(big.NewInt(v), w)
}

func (tb *Table) Sym(name string, s Sort) *Term {
	return tb.intern(OSym, s, nil, nil, name, 0, 0)
}

func (tb *Table) Not(a *Term) *Term {
	if a.IsConst() {
		return tb.Bool(a.Val.Sign() == 0)
	}
	if a.Op == ONot {
		return a.Args[0]
	}
	return tb.intern(ONot, BoolSort, []*Term{a}, nil, "", 0, 0)
}

func (tb *Table) And(as ...*Term) *Term {
	var out []*Term
	seen := map[int]bool{}
	var add func(a *Term) bool
	add = func(a *Term) bool {
		if a.IsTrue() {
			return true
		}
		if a.IsFalse() {
			return false
		}
		if a.Op == OAnd {
			for _, x := range a.Args {
				if !add(x) {
					return false
				}
			}
			return true
		}
		if seen[a.ID] {
			return true
		}
		seen[a.ID] = true
		out = append(out, a)
		return true
	}
	for _, a := range as {
		if !add(a) {
			return tb.False()
		}
	}
	for _, a := range out {
		if a.Op == ONot && seen[a.Args[0].ID] {
			return tb.False()
		}
	}
	if len(out) == 0 {
		return tb.True()
	}
	if len(out) == 1 {
		return out[0]
	}
	return tb.intern(OAnd, BoolSort, out, nil, "", 0, 0)
}

func (tb *Table) Or(as ...*Term) *Term {
	var out []*Term
	seen := map[int]bool{}
	var add func(a *Term) bool
	add = func(a *Term) bool {
		if a.IsFalse() {
			return true
		}
		if a.IsTrue() {
			return false
		}
		if a.Op == OOr {
			for _, x := range a.Args {
				if !add(x) {
					return false
				}
			}
			return true
		}
		if seen[a.ID] {
			return true
		}
		seen[a.ID] = true
		out = append(out, a)
		return true
	}
	for _, a := range as {
		if !add(a) {
			return tb.True()
		}
	}
	for _, a := range out {
		if a.Op == ONot && seen[a.Args[0].ID] {
			return tb.True()
		}
	}
	if len(out) == 0 {
		return tb.False()
	}
	if len(out) == 1 {
		return out[0]
	}
	return tb.intern(OOr, BoolSort, out, nil, "", 0, 0)
}

func (tb *Table) Implies(a, b *Term) *Term { return tb.Or(tb.Not(a), b) }

func (tb *Table) Ite(c, a, b *Term) *Term {
	if c.IsTrue() {
		return a
	}
	if c.IsFalse() {
		return b
	}
	if a == b {
		return a
	}
	if a.S != b.S {
		panic(fmt.Sprintf("smt: ite sort mismatch %v vs %v", a.S, b.S))
	}
	// the same condition again in a branch
	if a.Op == OIte && a.Args[0] == c {
		a = a.Args[1]
	}
	if b.Op == OIte && b.Args[0] == c {
		b = b.Args[2]
	}
	if a == b {
		return a
	}
	if a.S.K == KBool {
		if a.IsTrue() && b.IsFalse() {
			return c
		}
		if a.IsFalse() && b.IsTrue() {
			return tb.Not(c)
		}
		if a.IsTrue() {
			return tb.Or(c, b)
		}
		if a.IsFalse() {
			return tb.And(tb.Not(c), b)
		}
		if b.IsTrue() {
			return tb.Or(tb.Not(c), a)
		}
		if b.IsFalse() {
			return tb.And(c, a)
		}
	}
	return tb.intern(OIte, a.S, []*Term{c, a, b}, nil, "", 0, 0)
}

func (tb *Table) Eq(a, b *Term) *Term {
	if a == b {
		return tb.True()
	}
	if a.S != b.S {
		panic(fmt.Sprintf("smt: eq sort mismatch %v vs %v", a.S, b.S))
	}
	if a.IsConst() && b.IsConst() {
		return tb.Bool(a.Val.Cmp(b.Val) == 0)
	}
	if a.S.K == KBool {
		if a.IsTrue() {
			return b
		}
		if b.IsTrue() {
			return a
		}
		if a.IsFalse() {
			return tb.Not(b)
		}
		if b.IsFalse() {
			return tb.Not(a)
		}
	}
	// x + c1 == c2  ->  x == c2 - c1
	if a.S.K == KBV {
		if a.IsConst() {
			a, b = b, a
		}
		if a.Op == OAdd || b.Op == OAdd || a.Op == OMul || b.Op == OMul {
			d := tb.linOf(a)
			d.add(tb.linOf(b), true)
			n := 0
			var at *Term
			var co *big.Int
			for id, c := range d.Coef {
				if c.Sign() != 0 {
					n++
					at, co = d.Atoms[id], c
				}
			}
			w := a.S.W
			switch {
			case n == 0:
				return tb.Bool(d.C.Sign() == 0)
			case n == 1 && co.Cmp(one) == 0:
				if at.Op != OAdd && at.Op != OMul {
					return tb.Eq(at, tb.ConstBig(new(big.Int).Neg(d.C), w))
				}
			case n == 1 && co.Cmp(mask(w)) == 0:
				if at.Op != OAdd && at.Op != OMul {
					return tb.Eq(at, tb.ConstBig(d.C, w))
				}
			}
		}
		// zext(x) == c
		if b.IsConst() && a.Op == OZext {
			iw := a.Args[0].S.W
			if b.Val.BitLen() > iw {
				return tb.False()
			}
			return tb.Eq(a.Args[0], tb.ConstBig(b.Val, iw))
		}
	}
	if a.ID > b.ID {
		a, b = b, a
	}
	return tb.intern(OEq, BoolSort, []*Term{a, b}, nil, "", 0, 0)
}

func (tb *Table) bin(op Op, a, b *Term) *Term {
	if a.S != b.S {
		panic(fmt.Sprintf("smt: binop %s sort mismatch %v vs %v", opNames[op], a.S, b.S))
	}
	w := a.S.W
	if a.IsConst() && b.IsConst() {
		x, y := a.Val, b.Val
		r := new(big.Int)
		switch op {
		case OAdd:
			r.Add(x, y)
		case OSub:
			r.Sub(x, y)
		case OMul:
			r.Mul(x, y)
		case OUDiv:
			if y.Sign() == 0 {
				r = mask(w)
			} else {
				r.Div(x, y)
			}
		case OURem:
			if y.Sign() == 0 {
				r.Set(x)
			} else {
				r.Mod(x, y)
			}
		case OSDiv:
			if y.Sign() == 0 {
				goto nofold
			}
			r.Quo(signed(x, w), signed(y, w))
		case OSRem:
			if y.Sign() == 0 {
				goto nofold
			}
			r.Rem(signed(x, w), signed(y, w))
		case OBAnd:
			r.And(x, y)
		case OBOr:
			r.Or(x, y)
		case OBXor:
			r.Xor(x, y)
		case OShl:
			if y.Cmp(big.NewInt(int64(w))) >= 0 {
				r.SetInt64(0)
			} else {
				r.Lsh(x, uint(y.Uint64()))
			}
		case OLshr:
			if y.Cmp(big.NewInt(int64(w))) >= 0 {
				r.SetInt64(0)
			} else {
				r.Rsh(x, uint(y.Uint64()))
			}
		case OAshr:
			sx := signed(x, w)
			if y.Cmp(big.NewInt(int64(w))) >= 0 {
				if sx.Sign() < 0 {
					r.SetInt64(-1)
				} else {
					r.SetInt64(0)
				}
			} else {
				r.Rsh(sx, uint(y.Uint64()))
			}
		}
		return tb.ConstBig(r, w)
	}
nofold:
	switch op {
	case OBAnd:
		if a.IsConst() {
			a, b = b, a
		}
		if b.IsConst() {
			if b.Val.Sign() == 0 {
				return b
			}
			if b.Val.Cmp(mask(w)) == 0 {
				return a
			}
		}
		if a == b {
			return a
		}
	case OBOr:
		if a.IsConst() {
			a, b = b, a
		}
		if b.IsConst() {
			if b.Val.Sign() == 0 {
				return a
			}
			if b.Val.Cmp(mask(w)) == 0 {
				return b
			}
		}
		if a == b {
			return a
		}
		// little-endian assembly: zext(x) | (zext(y) << width(x))  ->  zext(concat(y, x))
		for pass := 0; pass < 2; pass++ {
			lo, hi := a, b
			if pass == 1 {
				lo, hi = b, a
			}
			if lo.Op == OZext && hi.Op == OShl && hi.Args[1].IsConst() && hi.Args[0].Op == OZext {
				x, y := lo.Args[0], hi.Args[0].Args[0]
				if hi.Args[1].Val.IsInt64() && int(hi.Args[1].Val.Int64()) == x.S.W && x.S.W+y.S.W <= w {
					return tb.Zext(tb.Concat(y, x), w)
				}
			}
			// x (full width source) variant: x | (zext(y) << k) where x = zext(x') handled above;
			// also the top byte: zext(c) | (zext(y) << k) with k+width(y) == w
		}
	case OBXor:
		if a.IsConst() {
			a, b = b, a
		}
		if b.IsConst() && b.Val.Sign() == 0 {
			return a
		}
	case OMul:
		if a.IsConst() {
			a, b = b, a
		}
		if b.IsConst() {
			l := tb.linOf(a)
			l.scale(b.Val)
			return tb.linBuild(l)
		}
	case OShl, OLshr, OAshr:
		if b.IsConst() && b.Val.Sign() == 0 {
			return a
		}
		if op == OLshr && b.IsConst() && a.Op == OZext {
			// (zext x) >> c where c >= width(x) -> 0
			if b.Val.Cmp(big.NewInt(int64(a.Args[0].S.W))) >= 0 {
				return tb.Const(0, w)
			}
		}
	}
	return tb.intern(op, a.S, []*Term{a, b}, nil, "", 0, 0)
}

func (tb *Table) Add(a, b *Term) *Term {
	if a.S != b.S {
		panic(fmt.Sprintf("smt: bvadd sort mismatch %v vs %v", a.S, b.S))
	}
	l := tb.linOf(a)
	l.add(tb.linOf(b), false)
	return tb.linBuild(l)
}

func (tb *Table) Sub(a, b *Term) *Term {
	if a.S != b.S {
		panic(fmt.Sprintf("smt: bvsub sort mismatch %v vs %v", a.S, b.S))
	}
	l := tb.linOf(a)
	l.add(tb.linOf(b), true)
	return tb.linBuild(l)
}

// LinForm is a linear combination sum(coef_i * atom_i) + c modulo 2^w.
type LinForm struct {
	W     int
	Coef  map[int]*big.Int
	Atoms map[int]*Term
	C     *big.Int
}

func NewLin(w int) *LinForm {
	return &LinForm{W: w, Coef: map[int]*big.Int{}, Atoms: map[int]*Term{}, C: new(big.Int)}
}

func (l *LinForm) AddAtom(t *Term, c *big.Int) {
	if old, ok := l.Coef[t.ID]; ok {
		l.Coef[t.ID] = norm(new(big.Int).Add(old, c), l.W)
	} else {
		l.Coef[t.ID] = norm(c, l.W)
		l.Atoms[t.ID] = t
	}
}

func (l *LinForm) add(o *LinForm, neg bool) {
	for id, c := range o.Coef {
		cc := c
		if neg {
			cc = new(big.Int).Neg(c)
		}
		l.AddAtom(o.Atoms[id], cc)
	}
	if neg {
		l.C = norm(new(big.Int).Sub(l.C, o.C), l.W)
	} else {
		l.C = norm(new(big.Int).Add(l.C, o.C), l.W)
	}
}

// AddLin adds (or subtracts) another form.
func (l *LinForm) AddLin(o *LinForm, neg bool) { l.add(o, neg) }

func (l *LinForm) scale(k *big.Int) {
	for id, c := range l.Coef {
		l.Coef[id] = norm(new(big.Int).Mul(c, k), l.W)
	}
	l.C = norm(new(big.Int).Mul(l.C, k), l.W)
}

// LinOf decomposes a bit-vector term into its linear form.
func (tb *Table) LinOf(t *Term) *LinForm { return tb.linOf(t) }

func (tb *Table) linOf(t *Term) *LinForm {
	l := NewLin(t.S.W)
	switch t.Op {
	case OConst:
		l.C = new(big.Int).Set(t.Val)
	case OAdd:
		for _, a := range t.Args {
			switch {
			case a.Op == OConst:
				l.C = norm(new(big.Int).Add(l.C, a.Val), l.W)
			case a.Op == OMul && a.Args[1].IsConst():
				l.AddAtom(a.Args[0], a.Args[1].Val)
			default:
				l.AddAtom(a, one)
			}
		}
	case OMul:
		if t.Args[1].IsConst() {
			l.AddAtom(t.Args[0], t.Args[1].Val)
		} else {
			l.AddAtom(t, one)
		}
	default:
		l.AddAtom(t, one)
	}
	return l
}

// LinBuild rebuilds the canonical term of a linear form.
func (tb *Table) LinBuild(l *LinForm) *Term { return tb.linBuild(l) }

func (tb *Table) linBuild(l *LinForm) *Term {
	ids := make([]int, 0, len(l.Coef))
	for id, c := range l.Coef {
		if c.Sign() != 0 {
			ids = append(ids, id)
		}
	}
	sort.Ints(ids)
	args := make([]*Term, 0, len(ids)+1)
	for _, id := range ids {
		c := l.Coef[id]
		a := l.Atoms[id]
		if c.Cmp(one) == 0 {
			args = append(args, a)
		} else {
			args = append(args, tb.intern(OMul, a.S, []*Term{a, tb.ConstBig(c, l.W)}, nil, "", 0, 0))
		}
	}
	if l.C.Sign() != 0 || len(args) == 0 {
		args = append(args, tb.ConstBig(l.C, l.W))
	}
	if len(args) == 1 {
		return args[0]
	}
	return tb.intern(OAdd, BV(l.W), args, nil, "", 0, 0)
}
func (tb *Table) Mul(a, b *Term) *Term  { return tb.bin(OMul, a, b) }
func (tb *Table) UDiv(a, b *Term) *Term { return tb.bin(OUDiv, a, b) }
func (tb *Table) URem(a, b *Term) *Term { return tb.bin(OURem, a, b) }
func (tb *Table) SDiv(a, b *Term) *Term { return tb.bin(OSDiv, a, b) }
func (tb *Table) SRem(a, b *Term) *Term { return tb.bin(OSRem, a, b) }
func (tb *Table) BAnd(a, b *Term) *Term { return tb.bin(OBAnd, a, b) }
func (tb *Table) BOr(a, b *Term) *Term  { return tb.bin(OBOr, a, b) }
func (tb *Table) BXor(a, b *Term) *Term { return tb.bin(OBXor, a, b) }
func (tb *Table) Shl(a, b *Term) *Term  { return tb.bin(OShl, a, b) }
func (tb *Table) Lshr(a, b *Term) *Term { return tb.bin(OLshr, a, b) }
func (tb *Table) Ashr(a, b *Term) *Term { return tb.bin(OAshr, a, b) }

func (tb *Table) BNot(a *Term) *Term {
	if a.IsConst() {
		return tb.ConstBig(new(big.Int).Not(a.Val), a.S.W)
	}
	if a.Op == OBNot {
		return a.Args[0]
	}
	return tb.intern(OBNot, a.S, []*Term{a}, nil, "", 0, 0)
}

func (tb *Table) Neg(a *Term) *Term {
	l := NewLin(a.S.W)
	l.add(tb.linOf(a), true)
	return tb.linBuild(l)
}

func (tb *Table) cmp(op Op, a, b *Term) *Term {
	if a.S != b.S {
		panic(fmt.Sprintf("smt: cmp %s sort mismatch %v vs %v", opNames[op], a.S, b.S))
	}
	w := a.S.W
	if a.IsConst() && b.IsConst() {
		switch op {
		case OUlt:
			return tb.Bool(a.Val.Cmp(b.Val) < 0)
		case OUle:
			return tb.Bool(a.Val.Cmp(b.Val) <= 0)
		case OSlt:
			return tb.Bool(signed(a.Val, w).Cmp(signed(b.Val, w)) < 0)
		case OSle:
			return tb.Bool(signed(a.Val, w).Cmp(signed(b.Val, w)) <= 0)
		}
	}
	if a == b {
		return tb.Bool(op == OUle || op == OSle)
	}
	switch op {
	case OUlt:
		if b.IsConst() && b.Val.Sign() == 0 {
			return tb.False()
		}
		if a.IsConst() && a.Val.Cmp(mask(w)) == 0 {
			return tb.False()
		}
	case OUle:
		if a.IsConst() && a.Val.Sign() == 0 {
			return tb.True()
		}
		if b.IsConst() && b.Val.Cmp(mask(w)) == 0 {
			return tb.True()
		}
	}
	// comparisons of zero-extended values against constants
	if b.IsConst() && a.Op == OZext {
		iw := a.Args[0].S.W
		if b.Val.BitLen() > iw {
			// a < 2^iw <= b
			switch op {
			case OUlt, OUle:
				return tb.True()
			case OSlt, OSle:
				if signed(b.Val, w).Sign() >= 0 {
					return tb.True()
				}
				return tb.False()
			}
		} else if op == OUlt || op == OUle || ((op == OSlt || op == OSle) && iw < w) {
			nop := op
			if op == OSlt {
				nop = OUlt
			} else if op == OSle {
				nop = OUle
			}
			return tb.cmp(nop, a.Args[0], tb.ConstBig(b.Val, iw))
		}
	}
	if a.IsConst() && b.Op == OZext {
		iw := b.Args[0].S.W
		if a.Val.BitLen() > iw {
			switch op {
			case OUlt, OUle:
				return tb.False()
			case OSlt, OSle:
				if signed(a.Val, w).Sign() >= 0 {
					return tb.False()
				}
				return tb.True()
			}
		} else if op == OUlt || op == OUle || ((op == OSlt || op == OSle) && iw < w) {
			nop := op
			if op == OSlt {
				nop = OUlt
			} else if op == OSle {
				nop = OUle
			}
			return tb.cmp(nop, tb.ConstBig(a.Val, iw), b.Args[0])
		}
	}
	if a.Op == OZext && b.Op == OZext && a.Args[0].S == b.Args[0].S && a.Args[0].S.W < w {
		nop := op
		if op == OSlt {
			nop = OUlt
		} else if op == OSle {
			nop = OUle
		}
		return tb.cmp(nop, a.Args[0], b.Args[0])
	}
	return tb.intern(op, BoolSort, []*Term{a, b}, nil, "", 0, 0)
}

func (tb *Table) Ult(a, b *Term) *Term { return tb.cmp(OUlt, a, b) }
func (tb *Table) Ule(a, b *Term) *Term { return tb.cmp(OUle, a, b) }
func (tb *Table) Slt(a, b *Term) *Term { return tb.cmp(OSlt, a, b) }
func (tb *Table) Sle(a, b *Term) *Term { return tb.cmp(OSle, a, b) }

func (tb *Table) Concat(hi, lo *Term) *Term {
	w := hi.S.W + lo.S.W
	if hi.IsConst() && lo.IsConst() {
		v := new(big.Int).Lsh(hi.Val, uint(lo.S.W))
		v.Or(v, lo.Val)
		return tb.ConstBig(v, w)
	}
	// concat(extract[h:m](x), extract[m-1:l](x)) -> extract[h:l](x)
	if hi.Op == OExtract && lo.Op == OExtract && hi.Args[0] == lo.Args[0] && hi.Lo == lo.Hi+1 {
		return tb.Extract(hi.Args[0], hi.Hi, lo.Lo)
	}
	return tb.intern(OConcat, BV(w), []*Term{hi, lo}, nil, "", 0, 0)
}

// ConcatMany concatenates most-significant first.
func (tb *Table) ConcatMany(ts []*Term) *Term {
	if len(ts) == 0 {
		panic("smt: empty concat")
	}
	// balanced tree keeps depth small
	if len(ts) == 1 {
		return ts[0]
	}
	m := len(ts) / 2
	return tb.Concat(tb.ConcatMany(ts[:m]), tb.ConcatMany(ts[m:]))
}

func (tb *Table) Extract(a *Term, hi, lo int) *Term {
	w := hi - lo + 1
	if lo == 0 && w == a.S.W {
		return a
	}
	if hi >= a.S.W || lo < 0 || hi < lo {
		panic(fmt.Sprintf("smt: bad extract [%d:%d] of width %d", hi, lo, a.S.W))
	}
	if a.IsConst() {
		v := new(big.Int).Rsh(a.Val, uint(lo))
		return tb.ConstBig(v, w)
	}
	switch a.Op {
	case OExtract:
		return tb.Extract(a.Args[0], a.Lo+hi, a.Lo+lo)
	case OConcat:
		lw := a.Args[1].S.W
		if hi < lw {
			return tb.Extract(a.Args[1], hi, lo)
		}
		if lo >= lw {
			return tb.Extract(a.Args[0], hi-lw, lo-lw)
		}
	case OZext:
		iw := a.Args[0].S.W
		if hi < iw {
			return tb.Extract(a.Args[0], hi, lo)
		}
		if lo >= iw {
			return tb.Const(0, w)
		}
		if lo == 0 {
			return tb.Zext(a.Args[0], w)
		}
	case OBOr, OBAnd, OBXor:
		// push extract through bitwise ops when it simplifies one side
		x := tb.Extract(a.Args[0], hi, lo)
		y := tb.Extract(a.Args[1], hi, lo)
		if x.IsConst() || y.IsConst() {
			return tb.bin(a.Op, x, y)
		}
	case OShl:
		if a.Args[1].IsConst() {
			sh := int(a.Args[1].Val.Int64())
			if a.Args[1].Val.IsInt64() && sh >= 0 {
				if hi < sh {
					return tb.Const(0, w)
				}
				if lo >= sh {
					return tb.Extract(a.Args[0], hi-sh, lo-sh)
				}
			}
		}
	case OLshr:
		if a.Args[1].IsConst() && a.Args[1].Val.IsInt64() {
			sh := int(a.Args[1].Val.Int64())
			if sh >= 0 && hi+sh < a.S.W {
				return tb.Extract(a.Args[0], hi+sh, lo+sh)
			}
			if sh >= 0 && lo+sh >= a.S.W {
				return tb.Const(0, w)
			}
		}
	}
	return tb.intern(OExtract, BV(w), []*Term{a}, nil, "", hi, lo)
}

func (tb *Table) Zext(a *Term, w int) *Term {
	if w == a.S.W {
		return a
	}
	if w < a.S.W {
		return tb.Extract(a, w-1, 0)
	}
	if a.IsConst() {
		return tb.ConstBig(a.Val, w)
	}
	if a.Op == OZext {
		return tb.Zext(a.Args[0], w)
	}
	return tb.intern(OZext, BV(w), []*Term{a}, nil, "", w-a.S.W, 0)
}

func (tb *Table) Sext(a *Term, w int) *Term {
	if w == a.S.W {
		return a
	}
	if w < a.S.W {
		return tb.Extract(a, w-1, 0)
	}
	if a.IsConst() {
		return tb.ConstBig(signed(a.Val, a.S.W), w)
	}
	if a.Op == OZext {
		return tb.Zext(a.Args[0], w)
	}
	return tb.intern(OSext, BV(w), []*Term{a}, nil, "", w-a.S.W, 0)
}

func (tb *Table) Select(arr, idx *Term) *Term {
	return tb.intern(OSelect, BV(8), []*Term{arr, idx}, nil, "", 0, 0)
}

// UF applies the uninterpreted function name (declared on first use).
func (tb *Table) UF(name string, ret Sort, args ...*Term) *Term {
	tb.mu.Lock()
	sig, ok := tb.UFs[name]
	if !ok {
		sig = UFSig{Ret: ret}
		for _, a := range args {
			sig.Args = append(sig.Args, a.S)
		}
		tb.UFs[name] = sig
	}
	tb.mu.Unlock()
	if len(sig.Args) != len(args) || sig.Ret != ret {
		panic(fmt.Sprintf("smt: UF %s used with inconsistent signature", name))
	}
	for i, a := range args {
		if a.S != sig.Args[i] {
			panic(fmt.Sprintf("smt: UF %s arg %d sort %v, declared %v", name, i, a.S, sig.Args[i]))
		}
	}
	if len(args) == 0 {
		return tb.Sym(name, ret)
	}
	return tb.intern(OUF, ret, args, nil, name, 0, 0)
}

// ---- printing ----

func constStr(t *Term) string {
	if t.S.K == KBool {
		if t.Val.Sign() != 0 {
			return "true"
		}
		return "false"
	}
	if t.S.W%4 == 0 {
		s := t.Val.Text(16)
		return "#x" + strings.Repeat("0", t.S.W/4-len(s)) + s
	}
	s := t.Val.Text(2)
	return "#b" + strings.Repeat("0", t.S.W-len(s)) + s
}

func symName(n string) string { return "|" + n + "|" }

// Ref is how a term is referred to inside other expressions.
func Ref(t *Term) string {
	switch t.Op {
	case OConst:
		return constStr(t)
	case OSym:
		return symName(t.Name)
	}
	return fmt.Sprintf("t%d", t.ID)
}

// Body prints the defining expression of a non-leaf term using Ref for children.
func Body(t *Term) string {
	var sb strings.Builder
	switch t.Op {
	case OConst, OSym:
		return Ref(t)
	case OExtract:
		fmt.Fprintf(&sb, "((_ extract %d %d) %s)", t.Hi, t.Lo, Ref(t.Args[0]))
	case OZext:
		fmt.Fprintf(&sb, "((_ zero_extend %d) %s)", t.Hi, Ref(t.Args[0]))
	case OSext:
		fmt.Fprintf(&sb, "((_ sign_extend %d) %s)", t.Hi, Ref(t.Args[0]))
	case OUF:
		if len(t.Args) == 0 {
			sb.WriteString(symName(t.Name))
			break
		}
		sb.WriteString("(" + symName(t.Name))
		for _, a := range t.Args {
			sb.WriteString(" " + Ref(a))
		}
		sb.WriteString(")")
	case OAdd:
		// n-ary sum, printed left-nested; summands with coefficient -1 are subtracted
		cur := ""
		for i, a := range t.Args {
			neg := a.Op == OMul && a.Args[1].IsConst() && a.Args[1].Val.Cmp(mask(t.S.W)) == 0
			r := Ref(a)
			if neg {
				r = Ref(a.Args[0])
			}
			switch {
			case i == 0 && neg:
				cur = "(bvneg " + r + ")"
			case i == 0:
				cur = r
			case neg:
				cur = "(bvsub " + cur + " " + r + ")"
			default:
				cur = "(bvadd " + cur + " " + r + ")"
			}
		}
		sb.WriteString(cur)
	default:
		sb.WriteString("(" + opNames[t.Op])
		for _, a := range t.Args {
			sb.WriteString(" " + Ref(a))
		}
		sb.WriteString(")")
	}
	return sb.String()
}

// String prints the fully expanded term (for diagnostics; may be large).
func (t *Term) String() string {
	return t.str(0)
}

func (t *Term) str(depth int) string {
	if depth > 6 {
		return fmt.Sprintf("t%d…", t.ID)
	}
	switch t.Op {
	case OConst:
		if t.S.K == KBV && t.S.W <= 64 {
			return fmt.Sprintf("%d:%d", t.Val, t.S.W)
		}
		return constStr(t)
	case OSym:
		return t.Name
	case OExtract:
		return fmt.Sprintf("%s[%d:%d]", t.Args[0].str(depth+1), t.Hi, t.Lo)
	case OZext:
		return fmt.Sprintf("zx(%s)", t.Args[0].str(depth+1))
	case OSext:
		return fmt.Sprintf("sx(%s)", t.Args[0].str(depth+1))
	}
	name := opNames[t.Op]
	if t.Op == OUF {
		name = t.Name
	}
	var parts []string
	for _, a := range t.Args {
		parts = append(parts, a.str(depth+1))
	}
	return "(" + name + " " + strings.Join(parts, " ") + ")"
}

// Syms collects the free symbols of t (by name), sorted.
func Syms(ts ...*Term) []*Term {
	seen := map[int]bool{}
	var out []*Term
	var walk func(t *Term)
	walk = func(t *Term) {
		if seen[t.ID] {
			return
		}
		seen[t.ID] = true
		if t.Op == OSym {
			out = append(out, t)
		}
		for _, a := range t.Args {
			walk(a)
		}
	}
	for _, t := range ts {
		walk(t)
	}
	sort.Slice(out, func(i, j int) bool { return out[i].Name < out[j].Name })
	return out
}
