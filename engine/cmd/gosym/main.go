// gosym: symbolic execution of go-tdx-guest harnesses over go/ssa with an SMT back end.
package main

import (
	"encoding/json"
	"flag"
	"fmt"
	"go/types"
	"os"
	"path/filepath"
	"regexp"
	"runtime/pprof"
	"sort"
	"strings"
	"sync"
	"time"

	"gosym/sym"

	"golang.org/x/tools/go/packages"
	"golang.org/x/tools/go/ssa"
	"golang.org/x/tools/go/ssa/ssautil"
)

const modPath = "github.com/google/go-tdx-guest"

type directive struct {
	kind string // model | merge | transparent
	arg  string
	fn   string // for model: the Go function implementing it
	file string
}

var dirRe = regexp.MustCompile(`^//vp:(model|merge|transparent|unwind|maxpaths)\s+(\S.*)$`)
var funcRe = regexp.MustCompile(`^func\s+(\w+)\s*\(`)

func scanDirectives(path, virt string) []directive {
	data, err := os.ReadFile(path)
	if err != nil {
		return nil
	}
	var out []directive
	var pending []directive
	for _, line := range strings.Split(string(data), "\n") {
		line = strings.TrimRight(line, " \t\r")
		if m := dirRe.FindStringSubmatch(line); m != nil {
			d := directive{kind: m[1], arg: strings.TrimSpace(m[2]), file: virt}
			if d.kind == "model" {
				pending = append(pending, d)
			} else {
				out = append(out, d)
			}
			continue
		}
		if m := funcRe.FindStringSubmatch(line); m != nil && len(pending) > 0 {
			for _, d := range pending {
				d.fn = m[1]
				out = append(out, d)
			}
			pending = nil
		}
	}
	return out
}

type loaded struct {
	prog     *ssa.Program
	pkgs     []*ssa.Package
	repoPkgs []*ssa.Package
	dirs     []directive
	fileOf   map[string]string // virtual file -> harness group (source dir)
	loadS    float64
	dropped  []string // white-box harness files left out (do not type-check against this tree)
}

func load(repo, verif string, groups []string) (*loaded, error) {
	start := time.Now()
	overlay := map[string][]byte{}
	var dirs []directive
	addFile := func(src, virt string) error {
		data, err := os.ReadFile(src)
		if err != nil {
			return err
		}
		overlay[virt] = data
		dirs = append(dirs, scanDirectives(src, virt)...)
		return nil
	}
	patterns := []string{}
	vpRoot := filepath.Join(verif, "vp")
	err := filepath.Walk(vpRoot, func(path string, info os.FileInfo, err error) error {
		if err != nil {
			return err
		}
		if info.IsDir() {
			rel, _ := filepath.Rel(vpRoot, path)
			if has, _ := filepath.Glob(filepath.Join(path, "*.go")); len(has) > 0 {
				patterns = append(patterns, "./"+filepath.ToSlash(filepath.Join("zzvp", rel)))
			}
			return nil
		}
		if strings.HasSuffix(path, ".go") && !strings.HasSuffix(path, "_test.go") {
			rel, _ := filepath.Rel(vpRoot, path)
			return addFile(path, filepath.Join(repo, "zzvp", rel))
		}
		return nil
	})
	if err != nil {
		return nil, err
	}
	seenPat := map[string]bool{}
	// harness groups: /verif/harness/<group>/<pkgdir with __ for />/*.go
	for _, g := range groups {
		gdir := filepath.Join(verif, "harness", g)
		ents, err := os.ReadDir(gdir)
		if err != nil {
			return nil, fmt.Errorf("harness group %s: %v", g, err)
		}
		for _, e := range ents {
			if !e.IsDir() {
				continue
			}
			pkgdir := strings.ReplaceAll(e.Name(), "__", "/")
			files, _ := filepath.Glob(filepath.Join(gdir, e.Name(), "*.go"))
			for _, f := range files {
				if strings.HasSuffix(f, "_test.go") {
					continue
				}
				virt := filepath.Join(repo, pkgdir, "zz_verif_"+g+"_"+filepath.Base(f))
				if err := addFile(f, virt); err != nil {
					return nil, err
				}
			}
			if !seenPat[pkgdir] {
				seenPat[pkgdir] = true
				patterns = append(patterns, "./"+pkgdir)
			}
		}
	}
	// White-box harness files (*_wb.go) call unexported functions that no test of the
	// repository pins down. When such a file no longer type-checks against the tree
	// (a helper was renamed, its signature changed) it is left out, with a note: the
	// harnesses that drive the exported API and test-pinned functions still decide the property.
	var initial []*packages.Package
	var dropped []string
	for attempt := 0; ; attempt++ {
		cfg := &packages.Config{
			Mode:    packages.LoadAllSyntax,
			Dir:     repo,
			Overlay: overlay,
			Env:     append(os.Environ(), "GOFLAGS=-mod=mod", "GOPROXY=off", "GOSUMDB=off", "GOTOOLCHAIN=local"),
		}
		var err error
		initial, err = packages.Load(cfg, patterns...)
		if err != nil {
			return nil, err
		}
		nerr := 0
		var msgs []string
		bad := map[string]string{}
		onlyWB := true
		packages.Visit(initial, nil, func(p *packages.Package) {
			for _, e := range p.Errors {
				if nerr < 20 {
					msgs = append(msgs, fmt.Sprintf("load error: %s: %v", p.PkgPath, e))
				}
				nerr++
				file := e.Pos
				if i := strings.Index(file, ":"); i >= 0 {
					file = file[:i]
				}
				if _, isOverlay := overlay[file]; isOverlay && strings.HasSuffix(file, "_wb.go") {
					if _, seen := bad[file]; !seen {
						bad[file] = e.Msg
					}
				} else {
					onlyWB = false
				}
			}
		})
		if nerr == 0 {
			break
		}
		if !onlyWB || len(bad) == 0 || attempt >= 3 {
			for _, m := range msgs {
				fmt.Fprintln(os.Stderr, m)
			}
			return nil, fmt.Errorf("%d package load errors (the tree does not compile with the harness overlay)", nerr)
		}
		for f, msg := range bad {
			delete(overlay, f)
			dropped = append(dropped, filepath.Base(f)+": "+msg)
			fmt.Fprintf(os.Stderr, "NOTE: white-box harness file %s does not apply to this tree (%s); left out\n", filepath.Base(f), msg)
			var kept []directive
			for _, d := range dirs {
				if d.file != f {
					kept = append(kept, d)
				}
			}
			dirs = kept
		}
	}
	sort.Strings(dropped)
	prog, pkgs := ssautil.AllPackages(initial, ssa.InstantiateGenerics)
	prog.Build()
	l := &loaded{prog: prog, pkgs: pkgs, dirs: dirs, dropped: dropped}
	// repository packages in dependency order
	var order []*ssa.Package
	seen := map[string]bool{}
	var visit func(p *packages.Package)
	visit = func(p *packages.Package) {
		if seen[p.PkgPath] {
			return
		}
		seen[p.PkgPath] = true
		var imps []string
		for k := range p.Imports {
			imps = append(imps, k)
		}
		sort.Strings(imps)
		for _, k := range imps {
			visit(p.Imports[k])
		}
		if strings.HasPrefix(p.PkgPath, modPath) {
			if sp := prog.Package(p.Types); sp != nil {
				order = append(order, sp)
			}
		}
	}
	for _, p := range initial {
		visit(p)
	}
	l.repoPkgs = order
	l.loadS = time.Since(start).Seconds()
	return l, nil
}

type harnessRef struct {
	fn   *ssa.Function
	file string
}

func findHarnesses(l *loaded, re *regexp.Regexp) []harnessRef {
	var out []harnessRef
	for _, p := range l.repoPkgs {
		for name, m := range p.Members {
			f, ok := m.(*ssa.Function)
			if !ok || !re.MatchString(name) {
				continue
			}
			file := l.prog.Fset.Position(f.Pos()).Filename
			if !strings.Contains(filepath.Base(file), "zz_verif_") {
				continue
			}
			out = append(out, harnessRef{fn: f, file: file})
		}
	}
	sort.Slice(out, func(i, j int) bool { return out[i].fn.Name() < out[j].fn.Name() })
	return out
}

func buildEngine(l *loaded, h harnessRef, base sym.Config) (*sym.Engine, error) {
	cfg := base
	cfg.SkipInit = map[string]bool{
		// parses the embedded root with the real PEM/X.509 decoders; harnesses that
		// need the embedded root install a model certificate instead
		modPath + "/verify.init#1": true,
	}
	cfg.Merge = map[string]bool{}
	for k, v := range base.Merge {
		cfg.Merge[k] = v
	}
	cfg.Transparent = append([]string{modPath + "/", "errors", "encoding/binary", "encoding/hex", "time", "sort", "math/bits", "bytes", "strings", "strconv", "unicode", "unicode/utf8", "slices", "cmp", "encoding/asn1", "container/list", "io", "crypto/subtle", "sync/atomic", "internal/stringslite", "internal/bytealg", "internal/byteorder", "internal/itoa"}, base.Transparent...)
	eng := sym.NewEngine(l.prog, cfg)
	// initialise only the repository packages the harness's package depends on
	need := map[string]bool{}
	var mark func(p *types.Package)
	mark = func(p *types.Package) {
		if need[p.Path()] {
			return
		}
		need[p.Path()] = true
		for _, im := range p.Imports() {
			mark(im)
		}
	}
	if h.fn.Pkg != nil {
		mark(h.fn.Pkg.Pkg)
	}
	for _, p := range l.repoPkgs {
		if need[p.Pkg.Path()] {
			eng.RepoPkgs = append(eng.RepoPkgs, p)
		}
	}
	// directives: common files first, then the harness's own file (overrides)
	apply := func(d directive) error {
		switch d.kind {
		case "merge":
			eng.Cfg.Merge[d.arg] = true
		case "transparent":
			eng.Cfg.Transparent = append(eng.Cfg.Transparent, d.arg)
		case "unwind":
			fmt.Sscan(d.arg, &eng.Cfg.Unwind)
		case "maxpaths":
			fmt.Sscan(d.arg, &eng.Cfg.MaxPaths)
		case "model":
			var mf *ssa.Function
			for _, p := range l.repoPkgs {
				if f := p.Func(d.fn); f != nil && l.prog.Fset.Position(f.Pos()).Filename == d.file {
					mf = f
				}
			}
			if mf == nil {
				return fmt.Errorf("model function %s (for %s) not found in %s", d.fn, d.arg, d.file)
			}
			eng.Models[d.arg] = mf
		}
		return nil
	}
	for _, d := range l.dirs {
		if d.file != h.file && strings.Contains(filepath.Base(d.file), "_common") && filepath.Dir(d.file) == filepath.Dir(h.file) {
			if err := apply(d); err != nil {
				return nil, err
			}
		}
	}
	for _, d := range l.dirs {
		if d.file == h.file {
			if err := apply(d); err != nil {
				return nil, err
			}
		}
	}
	return eng, nil
}

func main() {
	repo := flag.String("repo", "/repo", "repository working tree")
	verif := flag.String("verif", "/verif", "verification tree")
	groups := flag.String("groups", "", "comma separated harness groups (directories under harness/)")
	match := flag.String("match", "^H", "regexp selecting harness functions")
	out := flag.String("out", "", "write JSON reports to this file")
	jobs := flag.Int("j", 8, "cores: harnesses and path workers running at once")
	pworkers := flag.Int("pj", 16, "at most this many path workers per harness (each an engine and solver process of its own)")
	verbose := flag.Int("v", 0, "verbosity")
	solver := flag.String("solver", "z3", "z3 | z3-new | cvc5")
	qto := flag.Int("query-timeout", 20000, "per-query timeout (ms)")
	budget := flag.Int("budget", 0, "per-harness wall-clock budget in seconds (0 = none)")
	unwind := flag.Int("unwind", 64, "default loop unwinding bound for symbolic loops")
	maxPaths := flag.Int("max-paths", 100000, "path budget per harness")
	list := flag.Bool("list", false, "list harnesses and exit")
	cpuprof := flag.String("cpuprofile", "", "write a CPU profile")
	flag.Parse()
	sym.RepoDir = *repo
	if *cpuprof != "" {
		f, _ := os.Create(*cpuprof)
		pprof.StartCPUProfile(f)
		defer pprof.StopCPUProfile()
	}

	l, err := load(*repo, *verif, strings.Split(*groups, ","))
	if err != nil {
		fmt.Fprintln(os.Stderr, "gosym: load failed:", err)
		os.Exit(2)
	}
	re, err := regexp.Compile(*match)
	if err != nil {
		fmt.Fprintln(os.Stderr, "gosym:", err)
		os.Exit(2)
	}
	hs := findHarnesses(l, re)
	if *list {
		for _, h := range hs {
			fmt.Println(h.fn.Name(), h.file)
		}
		return
	}
	if len(hs) == 0 {
		fmt.Fprintln(os.Stderr, "gosym: no harness matches", *match)
		os.Exit(2)
	}
	base := sym.DefaultConfig()
	base.Solver = *solver
	base.QueryTimeoutMs = *qto
	base.Verbose = *verbose
	base.Unwind = *unwind
	base.MaxPaths = *maxPaths
	reports := make([]*sym.Report, len(hs))
	var wg sync.WaitGroup
	sem := make(chan struct{}, *jobs)
	var mu sync.Mutex
	for i, h := range hs {
		wg.Add(1)
		go func(i int, h harnessRef) {
			defer wg.Done()
			sem <- struct{}{}
			defer func() { <-sem }()
			cfg := base
			if *budget > 0 {
				cfg.Deadline = time.Now().Add(time.Duration(*budget) * time.Second)
			}
			eng, err := buildEngine(l, h, cfg)
			if err != nil {
				mu.Lock()
				reports[i] = &sym.Report{Harness: h.fn.Name(), Inconclusive: []sym.Inconclusive{{Reason: err.Error()}}}
				mu.Unlock()
				return
			}
			// further workers are started while prefixes are waiting and a core is free
			sh := sym.NewShared(eng.Cfg)
			var wmu sync.Mutex
			var wwg sync.WaitGroup
			extra := []*sym.Report{}
			nworkers := 1
			var spawn func()
			spawn = func() {
				wmu.Lock()
				defer wmu.Unlock()
				if nworkers >= *pworkers || sh.Pending() < 2 {
					return
				}
				select {
				case sem <- struct{}{}:
				default:
					return
				}
				weng, err := buildEngine(l, h, cfg)
				if err != nil {
					<-sem
					return
				}
				nworkers++
				wwg.Add(1)
				go func() {
					defer wwg.Done()
					r := weng.RunShared(h.fn, sh, false, spawn)
					<-sem
					wmu.Lock()
					nworkers--
					extra = append(extra, r)
					wmu.Unlock()
				}()
			}
			rep := eng.RunShared(h.fn, sh, true, spawn)
			wwg.Wait()
			wall := rep.WallS
			rep = sym.MergeReports(append([]*sym.Report{rep}, extra...))
			rep.WallS = wall
			mu.Lock()
			reports[i] = rep
			fmt.Fprintf(os.Stderr, "%-40s paths=%d findings=%d inconclusive=%d queries=%d solver=%.1fs wall=%.1fs\n",
				rep.Harness, rep.Paths, len(rep.Findings), len(rep.Inconclusive), rep.Queries, rep.SolverS, rep.WallS)
			mu.Unlock()
		}(i, h)
	}
	wg.Wait()
	res := map[string]interface{}{"load_s": l.loadS, "reports": reports, "dropped_whitebox_files": l.dropped}
	data, _ := json.MarshalIndent(res, "", " ")
	if *out != "" {
		os.WriteFile(*out, data, 0o644)
	} else {
		os.Stdout.Write(data)
		fmt.Println()
	}
}
