// Command audit lists the unexported identifiers of the repository that harness files refer to
// and that no test of the repository pins down (such a reference breaks the harness overlay when
// a maintainer renames the identifier). References in *_wb.go files are allowed.
package main

import (
	"flag"
	"fmt"
	"go/ast"
	"go/types"
	"os"
	"path/filepath"
	"sort"
	"strings"

	"golang.org/x/tools/go/packages"
)

const modPath = "github.com/google/go-tdx-guest"

type fakeName string

func (f fakeName) Name() string { return string(f) }

func main() {
	repo := flag.String("repo", "/repo", "repository")
	verif := flag.String("verif", "/verif", "verification tree")
	sets := flag.String("sets", "", "semicolon separated group sets (comma separated groups), as the checks load them")
	flag.Parse()
	overlay := map[string][]byte{}
	patterns := map[string]bool{}
	add := func(src, virt string) {
		data, err := os.ReadFile(src)
		if err != nil {
			panic(err)
		}
		overlay[virt] = data
	}
	vpRoot := filepath.Join(*verif, "vp")
	filepath.Walk(vpRoot, func(path string, info os.FileInfo, err error) error {
		if err == nil && !info.IsDir() && strings.HasSuffix(path, ".go") && !strings.HasSuffix(path, "_test.go") {
			rel, _ := filepath.Rel(vpRoot, path)
			add(path, filepath.Join(*repo, "zzvp", rel))
		}
		return nil
	})
	groups, _ := os.ReadDir(filepath.Join(*verif, "harness"))
	for _, g := range groups {
		ents, _ := os.ReadDir(filepath.Join(*verif, "harness", g.Name()))
		for _, e := range ents {
			if !e.IsDir() {
				continue
			}
			pkgdir := strings.ReplaceAll(e.Name(), "__", "/")
			files, _ := filepath.Glob(filepath.Join(*verif, "harness", g.Name(), e.Name(), "*.go"))
			for _, f := range files {
				add(f, filepath.Join(*repo, pkgdir, "zz_verif_"+g.Name()+"_"+filepath.Base(f)))
			}
			patterns["./"+pkgdir] = true
		}
	}
	var pats []string
	for p := range patterns {
		pats = append(pats, p)
	}
	sort.Strings(pats)
	// objects (by declaration position) used by the repository's own tests
	testNames := map[string]bool{}
	tcfg := &packages.Config{Mode: packages.LoadAllSyntax, Dir: *repo, Tests: true,
		Env: append(os.Environ(), "GOFLAGS=-mod=mod", "GOPROXY=off", "GOSUMDB=off", "GOTOOLCHAIN=local")}
	tp, err := packages.Load(tcfg, "./...")
	if err != nil {
		panic(err)
	}
	for _, p := range tp {
		for i, f := range p.Syntax {
			if i >= len(p.CompiledGoFiles) || !strings.HasSuffix(p.CompiledGoFiles[i], "_test.go") {
				continue
			}
			ast.Inspect(f, func(n ast.Node) bool {
				if id, ok := n.(*ast.Ident); ok {
					if obj := p.TypesInfo.Uses[id]; obj != nil && obj.Pkg() != nil && strings.HasPrefix(obj.Pkg().Path(), modPath) {
						testNames[p.Fset.Position(obj.Pos()).String()] = true
					}
				}
				return true
			})
		}
	}
	cfg := &packages.Config{Mode: packages.LoadAllSyntax, Dir: *repo, Overlay: overlay,
		Env: append(os.Environ(), "GOFLAGS=-mod=mod", "GOPROXY=off", "GOSUMDB=off", "GOTOOLCHAIN=local")}
	// harness groups define clashing names: load group by group would be exact; here each package dir is
	// loaded with all its harness files of one group at a time
	type ref struct{ file, name, kind, decl string }
	seen := map[ref]bool{}
	for _, set := range strings.Split(*sets, ";") {
		inSet := func(base string) bool {
			for _, g := range strings.Split(set, ",") {
				if strings.HasPrefix(base, "zz_verif_"+g+"_") {
					return true
				}
			}
			return false
		}
		g := fakeName(set)
		ov := map[string][]byte{}
		var ps []string
		for k, v := range overlay {
			base := filepath.Base(k)
			if strings.Contains(k, "/zzvp/") || inSet(base) {
				ov[k] = v
				if inSet(base) {
					ps = append(ps, "./"+strings.TrimPrefix(filepath.Dir(k), *repo+"/"))
				}
			}
		}
		if len(ps) == 0 {
			continue
		}
		cfg.Overlay = ov
		pkgs, err := packages.Load(cfg, ps...)
		if err != nil {
			panic(err)
		}
		for _, p := range pkgs {
			for _, e := range p.Errors {
				fmt.Fprintf(os.Stderr, "load error (%s): %v\n", g.Name(), e)
			}
			for i, f := range p.Syntax {
				fn := p.CompiledGoFiles[i]
				base := filepath.Base(fn)
				if !strings.HasPrefix(base, "zz_verif_") {
					continue
				}
				ast.Inspect(f, func(n ast.Node) bool {
					id, ok := n.(*ast.Ident)
					if !ok {
						return true
					}
					obj := p.TypesInfo.Uses[id]
					if obj == nil || obj.Pkg() == nil || !strings.HasPrefix(obj.Pkg().Path(), modPath) || strings.Contains(obj.Pkg().Path(), "/zzvp") || strings.Contains(obj.Pkg().Path(), "/proto/") {
						return true
					}
					if obj.Exported() {
						return true
					}
					def := p.Fset.Position(obj.Pos()).Filename
					if strings.HasPrefix(filepath.Base(def), "zz_verif_") {
						return true // the harness's own identifier
					}
					kind := "?"
					switch o := obj.(type) {
					case *types.Func:
						kind = "func"
					case *types.Var:
						if o.IsField() {
							kind = "field"
						} else {
							kind = "var"
						}
					case *types.TypeName:
						kind = "type"
					case *types.Const:
						kind = "const"
					}
					seen[ref{base, obj.Name(), kind, p.Fset.Position(obj.Pos()).String()}] = true
					return true
				})
			}
		}
	}
	var out []string
	bad := 0
	for r := range seen {
		pinned := testNames[r.decl] || (r.kind == "func" && r.name == "main")
		wb := strings.HasSuffix(r.file, "_wb.go")
		status := "FRAGILE"
		if pinned {
			status = "pinned-by-tests"
		} else if wb {
			status = "white-box-file"
		} else {
			bad++
		}
		out = append(out, fmt.Sprintf("%-16s %-44s %-6s %s", status, r.file, r.kind, r.name))
	}
	sort.Strings(out)
	for _, l := range out {
		fmt.Println(l)
	}
	fmt.Printf("%d references to unexported identifiers that neither a repository test nor a white-box file covers\n", bad)
	if bad > 0 {
		os.Exit(1)
	}
}
