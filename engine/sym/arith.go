package sym

import (
	"fmt"
	"math/big"
	"os"
	"sort"
	"strconv"
	"strings"

	"gosym/smt"
)

// A small decision layer in front of the solver for the offset/length
// arithmetic that dominates parser code: unsigned intervals learned from the
// path condition, distribution of zero-extension over sums that provably do
// not wrap, and substitution of size fields by the length expressions the
// path condition equates them with. Everything here is only a simplification
// under the current path condition: whatever it cannot decide goes to the
// solver unchanged. With GOSYM_CHECK_ARITH=1 every decision taken here is
// re-checked by the solver.

type ival struct {
	lo, hi *big.Int
}

var bigZero = big.NewInt(0)
var bigOne = big.NewInt(1)

func pow2(w int) *big.Int  { return new(big.Int).Lsh(bigOne, uint(w)) }
func maxOf(w int) *big.Int { return new(big.Int).Sub(pow2(w), bigOne) }

func fullIval(w int) ival { return ival{bigZero, maxOf(w)} }

func (a ival) meet(b ival) ival {
	lo, hi := a.lo, a.hi
	if b.lo.Cmp(lo) > 0 {
		lo = b.lo
	}
	if b.hi.Cmp(hi) < 0 {
		hi = b.hi
	}
	return ival{lo, hi}
}

func (a ival) join(b ival) ival {
	lo, hi := a.lo, a.hi
	if b.lo.Cmp(lo) < 0 {
		lo = b.lo
	}
	if b.hi.Cmp(hi) > 0 {
		hi = b.hi
	}
	return ival{lo, hi}
}

var checkArith = os.Getenv("GOSYM_CHECK_ARITH") != ""

func (ex *Exec) setFact(t *smt.Term, iv ival) {
	if t.IsConst() || t.S.K != smt.KBV {
		return
	}
	cur := ex.ivalOf(t)
	n := cur.meet(iv)
	if n.lo.Cmp(cur.lo) == 0 && n.hi.Cmp(cur.hi) == 0 {
		return
	}
	if n.lo.Cmp(n.hi) > 0 {
		return // contradictory: leave it to the solver
	}
	if ex.facts == nil {
		ex.facts = map[int]ival{}
	}
	ex.facts[t.ID] = n
	ex.ivalMemo = nil
	// push the fact through zero extension
	if t.Op == smt.OZext {
		ex.setFact(t.Args[0], ival{n.lo, minBig(n.hi, maxOf(t.Args[0].S.W))})
	}
}

func minBig(a, b *big.Int) *big.Int {
	if a.Cmp(b) < 0 {
		return a
	}
	return b
}

// signedCoef interprets a coefficient modulo 2^w as a small signed integer.
func signedCoef(c *big.Int, w int) *big.Int {
	if c.Bit(w-1) == 1 {
		return new(big.Int).Sub(c, pow2(w))
	}
	return c
}

// linRange evaluates a linear form over the integers using the atoms'
// intervals; ok reports that the coefficients are small.
func (ex *Exec) linRange(l *smt.LinForm) (lo, hi *big.Int, ok bool) {
	lo = signedCoef(l.C, l.W)
	hi = lo
	lim := big.NewInt(1 << 20)
	for id, c := range l.Coef {
		if c.Sign() == 0 {
			continue
		}
		sc := signedCoef(c, l.W)
		if new(big.Int).Abs(sc).Cmp(lim) > 0 {
			return nil, nil, false
		}
		iv := ex.ivalOf(l.Atoms[id])
		a := new(big.Int).Mul(sc, iv.lo)
		b := new(big.Int).Mul(sc, iv.hi)
		if sc.Sign() < 0 {
			a, b = b, a
		}
		lo = new(big.Int).Add(lo, a)
		hi = new(big.Int).Add(hi, b)
	}
	// relational facts about the variable part (learned from comparisons of
	// non-wrapping terms): value = V + c
	if len(ex.intFacts) > 0 {
		c := signedCoef(l.C, l.W)
		sig, flip := canonSig(l)
		if f, ok := ex.intFacts[sig]; ok {
			flo, fhi := f.lo, f.hi
			if flip {
				flo, fhi = negOrNil(f.hi), negOrNil(f.lo)
			}
			if flo != nil {
				if x := new(big.Int).Add(flo, c); x.Cmp(lo) > 0 {
					lo = x
				}
			}
			if fhi != nil {
				if x := new(big.Int).Add(fhi, c); x.Cmp(hi) < 0 {
					hi = x
				}
			}
		}
	}
	return lo, hi, true
}

func negOrNil(x *big.Int) *big.Int {
	if x == nil {
		return nil
	}
	return new(big.Int).Neg(x)
}

// canonSig returns the key of the variable part with the sign normalised so
// that the lowest-numbered atom has a positive coefficient.
func canonSig(l *smt.LinForm) (string, bool) {
	minID := -1
	for id, c := range l.Coef {
		if c.Sign() != 0 && (minID < 0 || id < minID) {
			minID = id
		}
	}
	if minID < 0 {
		return "", false
	}
	flip := signedCoef(l.Coef[minID], l.W).Sign() < 0
	return varSig(l, flip), flip
}

// varSig is a canonical key for the variable part of a linear form.
func varSig(l *smt.LinForm, negate bool) string {
	ids := make([]int, 0, len(l.Coef))
	for id, c := range l.Coef {
		if c.Sign() != 0 {
			ids = append(ids, id)
		}
	}
	sort.Ints(ids)
	var sb strings.Builder
	for _, id := range ids {
		c := signedCoef(l.Coef[id], l.W)
		if negate {
			c = new(big.Int).Neg(c)
		}
		sb.WriteString(strconv.Itoa(id))
		sb.WriteByte(':')
		sb.WriteString(c.String())
		sb.WriteByte(',')
	}
	return sb.String()
}

// learnDiff records that the integer value of (b - a) lies in [lo, hi]
// (nil = unbounded) when both are non-wrapping 64-bit terms.
func (ex *Exec) learnDiff(a, b *smt.Term, lo, hi *big.Int) {
	if a.S.W != 64 {
		return
	}
	na, nb := ex.nz(a), ex.nz(b)
	if _, _, ok := ex.noWrapOrAtom(na); !ok {
		return
	}
	if _, _, ok := ex.noWrapOrAtom(nb); !ok {
		return
	}
	d := ex.tb().LinOf(nb)
	d.AddLin(ex.tb().LinOf(na), true)
	sig, flip := canonSig(d)
	if sig == "" {
		return
	}
	c := signedCoef(d.C, d.W)
	var f ival
	if lo != nil {
		f.lo = new(big.Int).Sub(lo, c)
	}
	if hi != nil {
		f.hi = new(big.Int).Sub(hi, c)
	}
	if flip {
		f.lo, f.hi = negOrNil(f.hi), negOrNil(f.lo)
	}
	if ex.intFacts == nil {
		ex.intFacts = map[string]ival{}
	}
	if old, ok := ex.intFacts[sig]; ok {
		if old.lo != nil && (f.lo == nil || old.lo.Cmp(f.lo) > 0) {
			f.lo = old.lo
		}
		if old.hi != nil && (f.hi == nil || old.hi.Cmp(f.hi) < 0) {
			f.hi = old.hi
		}
	}
	if f.lo != nil && f.hi != nil && f.lo.Cmp(f.hi) == 0 {
		// the variable part is pinned: turn it into a substitution for its newest atom
		ex.pinVarPart(d, flip, f.lo)
	}
	ex.intFacts[sig] = f
	ex.ivalMemo = nil
}

// noWrap: the linear term evaluates, as an integer, inside [0, 2^w).
func (ex *Exec) noWrap(t *smt.Term) (lo, hi *big.Int, ok bool) {
	lo, hi, ok = ex.linRange(ex.tb().LinOf(t))
	if !ok || lo.Sign() < 0 || hi.Cmp(maxOf(t.S.W)) > 0 {
		return nil, nil, false
	}
	return lo, hi, true
}

func (ex *Exec) ivalOf(t *smt.Term) ival {
	if t.S.K != smt.KBV {
		return ival{bigZero, bigOne}
	}
	if t.IsConst() {
		return ival{t.Val, t.Val}
	}
	if ex.ivalMemo == nil {
		ex.ivalMemo = map[int]ival{}
	}
	if v, ok := ex.ivalMemo[t.ID]; ok {
		return v
	}
	w := t.S.W
	ex.ivalMemo[t.ID] = fullIval(w) // cycle guard
	r := fullIval(w)
	switch t.Op {
	case smt.OZext:
		r = ex.ivalOf(t.Args[0])
	case smt.OSext:
		in := ex.ivalOf(t.Args[0])
		if in.hi.Cmp(maxOf(t.Args[0].S.W-1)) <= 0 {
			r = in
		}
	case smt.OExtract:
		in := ex.ivalOf(t.Args[0])
		if t.Lo == 0 && in.hi.Cmp(maxOf(w)) <= 0 {
			r = in
		}
	case smt.OSelect:
		r = ival{bigZero, big.NewInt(255)}
	case smt.OIte:
		r = ex.ivalOf(t.Args[1]).join(ex.ivalOf(t.Args[2]))
	case smt.OConcat:
		h, l := ex.ivalOf(t.Args[0]), ex.ivalOf(t.Args[1])
		lw := t.Args[1].S.W
		r = ival{new(big.Int).Add(new(big.Int).Lsh(h.lo, uint(lw)), l.lo), new(big.Int).Add(new(big.Int).Lsh(h.hi, uint(lw)), l.hi)}
	case smt.OBOr, smt.OBXor:
		a, b := ex.ivalOf(t.Args[0]), ex.ivalOf(t.Args[1])
		m := a.hi
		if b.hi.Cmp(m) > 0 {
			m = b.hi
		}
		r = ival{bigZero, maxOf(m.BitLen())}
		if t.Op == smt.OBOr {
			lo := a.lo
			if b.lo.Cmp(lo) > 0 {
				lo = b.lo
			}
			r.lo = lo
		}
	case smt.OBAnd:
		a, b := ex.ivalOf(t.Args[0]), ex.ivalOf(t.Args[1])
		r = ival{bigZero, minBig(a.hi, b.hi)}
	case smt.OShl:
		if t.Args[1].IsConst() && t.Args[1].Val.IsInt64() && t.Args[1].Val.Int64() < int64(w) {
			a := ex.ivalOf(t.Args[0])
			h := new(big.Int).Lsh(a.hi, uint(t.Args[1].Val.Int64()))
			if h.Cmp(maxOf(w)) <= 0 {
				r = ival{new(big.Int).Lsh(a.lo, uint(t.Args[1].Val.Int64())), h}
			}
		}
	case smt.OLshr:
		if t.Args[1].IsConst() && t.Args[1].Val.IsInt64() && t.Args[1].Val.Int64() < int64(w) {
			a := ex.ivalOf(t.Args[0])
			sh := uint(t.Args[1].Val.Int64())
			r = ival{new(big.Int).Rsh(a.lo, sh), new(big.Int).Rsh(a.hi, sh)}
		}
	case smt.OURem:
		if t.Args[1].IsConst() && t.Args[1].Val.Sign() > 0 {
			r = ival{bigZero, new(big.Int).Sub(t.Args[1].Val, bigOne)}
		}
	case smt.OAdd, smt.OMul:
		if lo, hi, ok := ex.noWrap(t); ok {
			r = ival{lo, hi}
		}
	}
	if f, ok := ex.facts[t.ID]; ok {
		r = r.meet(f)
		if r.lo.Cmp(r.hi) > 0 {
			r = f
		}
	}
	ex.ivalMemo[t.ID] = r
	return r
}

// widen zero-extends t to w bits, simplifying under the path condition.
func (ex *Exec) widen(t *smt.Term, w int) *smt.Term {
	tb := ex.tb()
	if t.S.W >= w {
		if t.S.W == w {
			return t
		}
		return tb.Extract(t, w-1, 0)
	}
	switch t.Op {
	case smt.OExtract:
		// zext(trunc(x)) = x when x fits
		if t.Lo == 0 {
			x := t.Args[0]
			if ex.ivalOf(x).hi.Cmp(maxOf(t.S.W)) <= 0 {
				if x.S.W == w {
					return x
				}
				if x.S.W > w {
					return tb.Extract(x, w-1, 0)
				}
				return ex.widen(x, w)
			}
		}
	case smt.OAdd, smt.OMul:
		if _, _, ok := ex.noWrap(t); ok {
			l := tb.LinOf(t)
			out := smt.NewLin(w)
			out.C = new(big.Int).And(signedCoef(l.C, l.W), maxOf(w))
			if signedCoef(l.C, l.W).Sign() < 0 {
				out.C = new(big.Int).Add(pow2(w), signedCoef(l.C, l.W))
			}
			for id, c := range l.Coef {
				if c.Sign() == 0 {
					continue
				}
				out.AddLin(scaled(tb, ex.widen(l.Atoms[id], w), signedCoef(c, l.W)), false)
			}
			return tb.LinBuild(out)
		}
	case smt.OIte:
		return tb.Ite(t.Args[0], ex.widen(t.Args[1], w), ex.widen(t.Args[2], w))
	}
	return tb.Zext(t, w)
}

func scaled(tb *smt.Table, t *smt.Term, k *big.Int) *smt.LinForm {
	l := tb.LinOf(t)
	out := smt.NewLin(t.S.W)
	kk := new(big.Int).And(k, maxOf(t.S.W))
	if k.Sign() < 0 {
		kk = new(big.Int).Add(pow2(t.S.W), k)
	}
	for id, c := range l.Coef {
		out.AddAtom(l.Atoms[id], new(big.Int).Mul(c, kk))
	}
	out.C = new(big.Int).And(new(big.Int).Mul(l.C, kk), maxOf(t.S.W))
	return out
}

// nz normalises a 64-bit offset/length term under the path condition:
// size-field atoms are replaced by the expressions they are known to equal.
func (ex *Exec) nz(t *smt.Term) *smt.Term {
	if t.S.K != smt.KBV || t.IsConst() || len(ex.subst) == 0 {
		return t
	}
	if r, ok := ex.nzMemo[t.ID]; ok {
		return r
	}
	tb := ex.tb()
	l := tb.LinOf(t)
	changed := false
	for depth := 0; depth < 8; depth++ {
		again := false
		out := smt.NewLin(l.W)
		out.C = l.C
		for id, c := range l.Coef {
			if c.Sign() == 0 {
				continue
			}
			if rep, ok := ex.subst[id]; ok {
				out.AddLin(scaledMod(tb, rep, c), false)
				again, changed = true, true
			} else {
				out.AddAtom(l.Atoms[id], c)
			}
		}
		l = out
		if !again {
			break
		}
	}
	r := t
	if changed {
		r = tb.LinBuild(l)
	}
	if ex.nzMemo == nil {
		ex.nzMemo = map[int]*smt.Term{}
	}
	ex.nzMemo[t.ID] = r
	return r
}

func scaledMod(tb *smt.Table, t *smt.Term, c *big.Int) *smt.LinForm {
	l := tb.LinOf(t)
	out := smt.NewLin(t.S.W)
	for id, cc := range l.Coef {
		out.AddAtom(l.Atoms[id], new(big.Int).Mul(cc, c))
	}
	out.C = new(big.Int).And(new(big.Int).Mul(l.C, c), maxOf(t.S.W))
	return out
}

func isLinearNode(t *smt.Term) bool {
	return t.Op == smt.OAdd || t.Op == smt.OMul || t.Op == smt.OConst
}

func (ex *Exec) occurs(atom *smt.Term, in *smt.Term) bool {
	l := ex.tb().LinOf(in)
	for id, c := range l.Coef {
		if c.Sign() != 0 && id == atom.ID {
			return true
		}
	}
	return false
}

// pinVarPart: the (possibly sign-flipped) variable part of d equals k.
func (ex *Exec) pinVarPart(d *smt.LinForm, flip bool, k *big.Int) {
	best := -1
	for id, c := range d.Coef {
		if c.Sign() == 0 {
			continue
		}
		sc := signedCoef(c, d.W)
		if sc.CmpAbs(bigOne) != 0 || isLinearNode(d.Atoms[id]) {
			continue
		}
		if _, dup := ex.subst[id]; dup {
			continue
		}
		if id > best {
			best = id
		}
	}
	if best < 0 {
		return
	}
	tb := ex.tb()
	// sign*V = k  with V = cb*x + R  =>  x = (sign*k - R)/cb  (cb = +-1)
	cb := signedCoef(d.Coef[best], d.W)
	rest := smt.NewLin(d.W)
	for id, c := range d.Coef {
		if id != best && c.Sign() != 0 {
			rest.AddAtom(d.Atoms[id], c)
		}
	}
	kk := new(big.Int).Set(k)
	if flip {
		kk.Neg(kk)
	}
	// x = cb*(kk - R)
	out := smt.NewLin(d.W)
	out.C = new(big.Int).And(kk, maxOf(d.W))
	if kk.Sign() < 0 {
		out.C = new(big.Int).Add(pow2(d.W), kk)
	}
	out.AddLin(rest, true)
	rep := tb.LinBuild(out)
	if cb.Sign() < 0 {
		rep = tb.Neg(rep)
	}
	atom := d.Atoms[best]
	if ex.occurs(atom, rep) {
		return
	}
	if ex.subst == nil {
		ex.subst = map[int]*smt.Term{}
	}
	ex.subst[atom.ID] = rep
	ex.nzMemo = nil
	if ex.eng.Cfg.Verbose > 2 {
		fmt.Printf("    subst(pinned) %v := %v\n", atom, rep)
	}
	if checkArith {
		if ex.check(tb.Not(tb.Eq(atom, rep))) == smt.Sat {
			ex.fail("arith self-check: pinned substitution %v := %v is REFUTED by the solver", atom, rep)
		}
	}
}

// learn extracts interval facts and substitutions from a new conjunct.
func (ex *Exec) learn(c *smt.Term) {
	neg := false
	if c.Op == smt.ONot {
		neg = true
		c = c.Args[0]
	}
	switch c.Op {
	case smt.OUle, smt.OUlt:
		a, b := c.Args[0], c.Args[1]
		strict := c.Op == smt.OUlt
		if neg {
			a, b = b, a
			strict = !strict
		}
		ex.learnLe(a, b, strict)
	case smt.OSle, smt.OSlt:
		a, b := c.Args[0], c.Args[1]
		strict := c.Op == smt.OSlt
		if neg {
			a, b = b, a
			strict = !strict
		}
		w := a.S.W
		half := maxOf(w - 1)
		if ex.ivalOf(a).hi.Cmp(half) <= 0 {
			// 0 <= a <=s b : b is non-negative too
			ex.setFact(b, ival{bigZero, half})
			ex.learnLe(a, b, strict)
		}
	case smt.OEq:
		if neg || c.Args[0].S.K != smt.KBV {
			return
		}
		a, b := c.Args[0], c.Args[1]
		ia, ib := ex.ivalOf(a), ex.ivalOf(b)
		m := ia.meet(ib)
		ex.setFact(a, m)
		ex.setFact(b, m)
		ex.learnDiff(a, b, bigZero, bigZero)
		ex.learnSubst(a, b)
	}
}

func (ex *Exec) learnLe(a, b *smt.Term, strict bool) {
	ia, ib := ex.ivalOf(a), ex.ivalOf(b)
	hiA := ib.hi
	loB := ia.lo
	if strict {
		hiA = new(big.Int).Sub(ib.hi, bigOne)
		loB = new(big.Int).Add(ia.lo, bigOne)
	}
	if hiA.Sign() >= 0 {
		ex.setFact(a, ival{bigZero, hiA})
	}
	ex.setFact(b, ival{loB, maxOf(b.S.W)})
	if strict {
		ex.learnDiff(a, b, bigOne, nil)
	} else {
		ex.learnDiff(a, b, bigZero, nil)
	}
}

func (ex *Exec) learnSubst(a, b *smt.Term) {
	// lift both sides to 64 bits (equal values stay equal under zero extension)
	A, B := ex.nz(ex.widen(a, 64)), ex.nz(ex.widen(b, 64))
	if ex.eng.Cfg.Verbose > 2 {
		fmt.Printf("    eq-fact %v == %v  lifted: %v == %v\n", a, b, A, B)
	}
	if A.S.W != 64 || A == B {
		return
	}
	var atom, rep *smt.Term
	switch {
	case !isLinearNode(A) && !ex.occurs(A, B):
		atom, rep = A, B
	case !isLinearNode(B) && !ex.occurs(B, A):
		atom, rep = B, A
	default:
		return
	}
	if atom.IsConst() {
		return
	}
	// prefer replacing size-field atoms (zero-extended narrow values) by length expressions
	if !isLinearNode(rep) && rep.Op == smt.OZext && atom.Op != smt.OZext && !ex.occurs(rep, atom) {
		atom, rep = rep, atom
	}
	if ex.subst == nil {
		ex.subst = map[int]*smt.Term{}
	}
	if _, dup := ex.subst[atom.ID]; dup {
		return
	}
	ex.subst[atom.ID] = rep
	ex.nzMemo = nil
	if ex.eng.Cfg.Verbose > 2 {
		fmt.Printf("    subst %v := %v\n", atom, rep)
	}
	if checkArith {
		if ex.check(ex.tb().Not(ex.tb().Eq(atom, rep))) == smt.Sat {
			ex.fail("arith self-check: substitution %v := %v is REFUTED by the solver", atom, rep)
		}
	}
}

// evalBool tries to decide a condition from intervals alone.
func (ex *Exec) evalBool(t *smt.Term) (val, known bool) {
	switch t.Op {
	case smt.OConst:
		return t.IsTrue(), true
	case smt.ONot:
		v, k := ex.evalBool(t.Args[0])
		return !v, k
	case smt.OAnd:
		all := true
		for _, a := range t.Args {
			v, k := ex.evalBool(a)
			if k && !v {
				return false, true
			}
			if !k {
				all = false
			}
		}
		return true, all
	case smt.OOr:
		all := true
		for _, a := range t.Args {
			v, k := ex.evalBool(a)
			if k && v {
				return true, true
			}
			if !k {
				all = false
			}
		}
		return false, all
	case smt.OUlt, smt.OUle, smt.OSlt, smt.OSle:
		a, b := t.Args[0], t.Args[1]
		w := a.S.W
		ia, ib := ex.ivalOf(a), ex.ivalOf(b)
		if t.Op == smt.OSlt || t.Op == smt.OSle {
			half := maxOf(w - 1)
			if ia.hi.Cmp(half) > 0 || ib.hi.Cmp(half) > 0 {
				return false, false
			}
		}
		strict := t.Op == smt.OUlt || t.Op == smt.OSlt
		// plain interval separation
		if strict {
			if ia.hi.Cmp(ib.lo) < 0 {
				return true, true
			}
			if ia.lo.Cmp(ib.hi) >= 0 {
				return false, true
			}
		} else {
			if ia.hi.Cmp(ib.lo) <= 0 {
				return true, true
			}
			if ia.lo.Cmp(ib.hi) > 0 {
				return false, true
			}
		}
		// difference of two non-wrapping linear terms
		if w == 64 {
			na, nb := ex.nz(a), ex.nz(b)
			if _, _, ok := ex.noWrapOrAtom(na); ok {
				if _, _, ok2 := ex.noWrapOrAtom(nb); ok2 {
					d := ex.tb().LinOf(nb)
					d.AddLin(ex.tb().LinOf(na), true)
					lo, hi, ok3 := ex.linRange(d)
					if ok3 {
						if strict {
							if lo.Sign() > 0 {
								return true, true
							}
							if hi.Sign() <= 0 {
								return false, true
							}
						} else {
							if lo.Sign() >= 0 {
								return true, true
							}
							if hi.Sign() < 0 {
								return false, true
							}
						}
					}
				}
			}
		}
	case smt.OEq:
		if t.Args[0].S.K != smt.KBV {
			return false, false
		}
		ia, ib := ex.ivalOf(t.Args[0]), ex.ivalOf(t.Args[1])
		if ia.hi.Cmp(ib.lo) < 0 || ib.hi.Cmp(ia.lo) < 0 {
			return false, true
		}
		if t.Args[0].S.W == 64 {
			na, nb := ex.nz(t.Args[0]), ex.nz(t.Args[1])
			if na == nb {
				return true, true
			}
			if ex.eng.Cfg.Verbose > 2 {
				fmt.Printf("    eq undecided: %v  vs  %v\n", na, nb)
			}
		}
	}
	return false, false
}

func (ex *Exec) noWrapOrAtom(t *smt.Term) (lo, hi *big.Int, ok bool) {
	if t.Op == smt.OAdd || t.Op == smt.OMul {
		return ex.noWrap(t)
	}
	iv := ex.ivalOf(t)
	return iv.lo, iv.hi, true
}

// quick decides a condition without the solver when it can; the decision is
// cross-checked by the solver when GOSYM_CHECK_ARITH is set.
func (ex *Exec) quick(t *smt.Term) (val, known bool) {
	val, known = ex.evalBool(t)
	if known && checkArith {
		q := t
		if val {
			q = ex.tb().Not(t)
		}
		switch ex.check(q) {
		case smt.Sat:
			ex.fail("arith self-check: interval decision %v for %v is REFUTED by the solver", val, t)
		case smt.Unknown:
			ex.eng.rep.Notes = append(ex.eng.rep.Notes, "arith self-check: solver could not confirm a decision (timeout)")
		}
	}
	if known {
		ex.eng.rep.QuickDecisions++
	}
	return
}
