package sym

import (
	"gosym/smt"
)

// Byte objects hold a persistent write log. Snapshots are O(1): a snapshot is
// just the head node at that moment.

type nodeKind uint8

const (
	nkZero nodeKind = iota
	nkSym
	nkDense
	nkStore
	nkCopy
	nkHex // lower-case hex encoding of src[srcOff:]
)

type logNode struct {
	id     int
	kind   nodeKind
	prev   *logNode
	arr    *smt.Term          // nkSym: array symbol
	dense  map[int64]*smt.Term // nkDense
	shared bool               // nkDense: a snapshot was taken, do not mutate
	idx    *smt.Term          // nkStore
	val    *smt.Term
	dstOff *smt.Term // nkCopy
	n      *smt.Term
	src    *logNode
	srcOff *smt.Term
	depth  int
	total  bool // nkCopy: covers the whole destination object
}

type ByteObj struct {
	ID     int
	Cap    *smt.Term
	head   *logNode
	Frozen bool
	Ghost  map[string]Value
	Name   string
}

func (ex *Exec) newNode(k nodeKind, prev *logNode) *logNode {
	ex.nodeSeq++
	n := &logNode{id: ex.nodeSeq, kind: k, prev: prev}
	if prev != nil {
		n.depth = prev.depth + 1
	}
	return n
}

func (ex *Exec) newByteObjZero(cap *smt.Term) *ByteObj {
	ex.objSeq++
	return &ByteObj{ID: ex.objSeq, Cap: cap, head: ex.newNode(nkZero, nil)}
}

func (ex *Exec) newByteObjSym(name string, cap *smt.Term) *ByteObj {
	ex.objSeq++
	n := ex.newNode(nkSym, nil)
	n.arr = ex.tb().Sym(name, smt.ArrSort)
	return &ByteObj{ID: ex.objSeq, Cap: cap, head: n, Name: name}
}

func (ex *Exec) newByteObjConst(data []byte) *ByteObj {
	bo := ex.newByteObjZero(ex.c64(uint64(len(data))))
	if len(data) > 0 {
		n := ex.newNode(nkDense, bo.head)
		n.dense = make(map[int64]*smt.Term, len(data))
		for i, b := range data {
			n.dense[int64(i)] = ex.tb().Const(uint64(b), 8)
		}
		bo.head = n
	}
	return bo
}

// snapshot returns an immutable view of the current contents.
func (bo *ByteObj) snapshot() *logNode {
	if bo.head.kind == nkDense {
		bo.head.shared = true
	}
	return bo.head
}

func (ex *Exec) storeByte(bo *ByteObj, idx, val *smt.Term) {
	if idx.IsConst() {
		h := bo.head
		if h.kind != nkDense || h.shared {
			h = ex.newNode(nkDense, bo.head)
			h.dense = map[int64]*smt.Term{}
			bo.head = h
		}
		h.dense[int64(idx.Uint64())] = val
		return
	}
	n := ex.newNode(nkStore, bo.head)
	n.idx, n.val = idx, val
	bo.head = n
}

func (ex *Exec) bulkCopy(dst *ByteObj, dstOff *smt.Term, src *logNode, srcOff, n *smt.Term) {
	if n.IsConst() && n.Uint64() == 0 {
		return
	}
	// small fully concrete copies are expanded so that later reads resolve directly
	if n.IsConst() && dstOff.IsConst() && srcOff.IsConst() && n.Uint64() <= 8 {
		vals := make([]*smt.Term, n.Uint64())
		for i := range vals {
			vals[i] = ex.readNode(src, ex.c64(srcOff.Uint64()+uint64(i)))
		}
		for i, v := range vals {
			ex.storeByte(dst, ex.c64(dstOff.Uint64()+uint64(i)), v)
		}
		return
	}
	nd := ex.newNode(nkCopy, dst.head)
	nd.dstOff, nd.n, nd.src, nd.srcOff = dstOff, n, src, srcOff
	nd.total = dstOff.IsConst() && dstOff.Uint64() == 0 && n == dst.Cap
	dst.head = nd
}

// readCache memoises byte reads. Results may have been simplified with facts of
// the path condition, so a nested exploration (merged call) works in a layer of
// its own that is dropped when its path condition is.
type readCache struct {
	m  map[[2]int]*smt.Term
	up *readCache
}

func (c *readCache) get(k [2]int) (*smt.Term, bool) {
	for ; c != nil; c = c.up {
		if v, ok := c.m[k]; ok {
			return v, true
		}
	}
	return nil, false
}

func (c *readCache) put(k [2]int, v *smt.Term) { c.m[k] = v }

// readNode returns the byte at index idx of the snapshot.
func (ex *Exec) readNode(nd *logNode, idx *smt.Term) *smt.Term {
	idx = ex.nz(idx)
	key := [2]int{nd.id, idx.ID}
	if ex.forkReads && !idx.IsConst() {
		key[0] = -nd.id // results depend on the path condition: keep them apart
	}
	if (nd.kind != nkDense || nd.shared) && !(ex.forkReads && !idx.IsConst()) { // mutable dense heads are not cached
		if v, ok := ex.readCache.get(key); ok {
			return v
		}
	}
	tb := ex.tb()
	var res *smt.Term
	switch nd.kind {
	case nkZero:
		res = tb.Const(0, 8)
	case nkSym:
		res = tb.Select(nd.arr, idx)
	case nkDense:
		if idx.IsConst() {
			if v, ok := nd.dense[int64(idx.Uint64())]; ok {
				return v
			}
			return ex.readNode(nd.prev, idx)
		}
		// symbolic index over a dense block: ite chain over its entries
		rest := ex.readNode(nd.prev, idx)
		keys := sortedKeys(nd.dense)
		if len(keys) > ex.eng.Cfg.MaxDenseIte {
			ex.fail("symbolic index into dense region of %d concrete stores exceeds MaxDenseIte", len(keys))
		}
		res = rest
		for _, k := range keys {
			res = tb.Ite(tb.Eq(idx, ex.c64(uint64(k))), nd.dense[k], res)
		}
		if !nd.shared {
			return res
		}
	case nkHex:
		half := tb.Lshr(idx, ex.c64(1))
		b := ex.readNode(nd.src, tb.Add(nd.srcOff, half))
		nib := tb.Ite(tb.Eq(tb.Extract(idx, 0, 0), tb.Const(0, 1)), tb.Lshr(b, tb.Const(4, 8)), tb.BAnd(b, tb.Const(15, 8)))
		res = tb.Ite(tb.Ult(nib, tb.Const(10, 8)), tb.Add(nib, tb.Const('0', 8)), tb.Add(nib, tb.Const('a'-10, 8)))
	case nkStore:
		hit := tb.Eq(idx, nd.idx)
		if hit.IsTrue() {
			res = nd.val
		} else if hit.IsFalse() {
			res = ex.readNode(nd.prev, idx)
		} else {
			res = tb.Ite(hit, nd.val, ex.readNode(nd.prev, idx))
		}
	case nkCopy:
		// dstOff <= idx < dstOff+n   (all values are < 2^62, so no wrap)
		// dstOff <= idx < dstOff+n; all offsets are far below 2^63, so the
		// single unsigned comparison of the relative index is equivalent
		rel := ex.nz(tb.Sub(idx, nd.dstOff))
		in := tb.Ult(rel, ex.nz(nd.n))
		if v, k := ex.quick(in); k {
			in = tb.Bool(v)
		}
		if nd.total {
			// every in-bounds index of the object is covered by this copy
			in = tb.True()
		}
		if in.IsTrue() {
			res = ex.readNode(nd.src, tb.Add(nd.srcOff, rel))
		} else if in.IsFalse() {
			res = ex.readNode(nd.prev, idx)
		} else if ex.forkReads {
			// case split on the region instead of building one large ite term
			if ex.branch(in, nil) {
				return ex.readNode(nd.src, tb.Add(nd.srcOff, rel))
			}
			return ex.readNode(nd.prev, idx)
		} else {
			res = tb.Ite(in, ex.readNode(nd.src, tb.Add(nd.srcOff, rel)), ex.readNode(nd.prev, idx))
		}
	}
	ex.readCache.put(key, res)
	return res
}

func sortedKeys(m map[int64]*smt.Term) []int64 {
	ks := make([]int64, 0, len(m))
	for k := range m {
		ks = append(ks, k)
	}
	// insertion sort is fine for small maps; use simple sort
	for i := 1; i < len(ks); i++ {
		for j := i; j > 0 && ks[j-1] > ks[j]; j-- {
			ks[j-1], ks[j] = ks[j], ks[j-1]
		}
	}
	return ks
}

func (ex *Exec) readByte(bo *ByteObj, idx *smt.Term) *smt.Term {
	return ex.readNode(bo.head, idx)
}

// ---- helpers on views ----

func (ex *Exec) c64(v uint64) *smt.Term { return ex.tb().Const(v, 64) }

func (ex *Exec) bytesOfConst(data []byte) Bytes {
	bo := ex.newByteObjConst(data)
	n := ex.c64(uint64(len(data)))
	return Bytes{BO: bo, Off: ex.c64(0), Len: n, Cap: n}
}

// viewByte reads byte i (term, relative to the view start).
func (ex *Exec) viewByte(b Bytes, i *smt.Term) *smt.Term {
	return ex.readByte(b.BO, ex.tb().Add(b.Off, i))
}

// concreteLen returns the length if it is a constant.
func concreteLen(t *smt.Term) (int, bool) {
	if t.IsConst() {
		return int(t.Int64()), true
	}
	return 0, false
}

// pinnedLen asks the solver whether the term has exactly one feasible value
// under the current path condition.
func (ex *Exec) pinnedLen(t *smt.Term) (int, bool) {
	if n, ok := concreteLen(t); ok {
		return n, true
	}
	if v, ok := ex.pinned[t.ID]; ok {
		return v, true
	}
	vals, ok := ex.modelOf([]*smt.Term{t})
	if !ok {
		return 0, false
	}
	v := vals[0]
	c := ex.tb().ConstBig(v, t.S.W)
	if ex.check(ex.tb().Not(ex.tb().Eq(t, c))) == smt.Unsat {
		n := int(c.Int64())
		ex.pinned[t.ID] = n
		return n, true
	}
	return 0, false
}

// bytesEq builds the term "the two byte sequences are equal".
func (ex *Exec) seqEq(aSnap *logNode, aOff, aLen *smt.Term, bSnap *logNode, bOff, bLen *smt.Term) *smt.Term {
	tb := ex.tb()
	n, ok := concreteLen(aLen)
	if !ok {
		n, ok = concreteLen(bLen)
	}
	if !ok {
		n, ok = ex.pinnedLen(aLen)
	}
	if !ok {
		n, ok = ex.pinnedLen(bLen)
	}
	lenEq := tb.Eq(aLen, bLen)
	if lenEq.IsFalse() {
		return lenEq
	}
	if ok {
		conj := []*smt.Term{lenEq, tb.Eq(aLen, ex.c64(uint64(n)))}
		for i := 0; i < n; i++ {
			ci := ex.c64(uint64(i))
			conj = append(conj, tb.Eq(ex.readNode(aSnap, tb.Add(aOff, ci)), ex.readNode(bSnap, tb.Add(bOff, ci))))
		}
		return tb.And(conj...)
	}
	// bounded expansion: need an upper bound on the length
	ub, ok := ex.upperBound(aLen)
	if !ok {
		ub, ok = ex.upperBound(bLen)
	}
	if !ok || ub > ex.eng.Cfg.MaxSeqEq {
		ex.fail("equality of two byte sequences whose lengths are both symbolic and unbounded")
	}
	conj := []*smt.Term{lenEq}
	for i := 0; i < ub; i++ {
		ci := ex.c64(uint64(i))
		conj = append(conj, tb.Or(tb.Ule(aLen, ci), tb.Eq(ex.readNode(aSnap, tb.Add(aOff, ci)), ex.readNode(bSnap, tb.Add(bOff, ci)))))
	}
	return tb.And(conj...)
}

// upperBound finds the largest feasible value of t under the path condition if
// it is at most Cfg.MaxSeqEq, by asking the solver.
func (ex *Exec) upperBound(t *smt.Term) (int, bool) {
	if n, ok := concreteLen(t); ok {
		return n, true
	}
	if ub, ok := ex.ubCache[t.ID]; ok {
		return ub, true
	}
	tb := ex.tb()
	limit := ex.eng.Cfg.MaxSeqEq
	if ex.check(tb.Ult(ex.c64(uint64(limit)), t)) != smt.Unsat {
		return 0, false
	}
	// binary search for the bound
	lo, hi := 0, limit
	for lo < hi {
		mid := (lo + hi) / 2
		if ex.check(tb.Ult(ex.c64(uint64(mid)), t)) == smt.Unsat {
			hi = mid
		} else {
			lo = mid + 1
		}
	}
	ex.ubCache[t.ID] = lo
	return lo, true
}
