package sym

import (
	"time"
	"encoding/hex"
	"fmt"
	"os"
	"strconv"
	"go/types"
	"net/textproto"
	"sort"
	"strings"

	"gosym/smt"

	"golang.org/x/tools/go/ssa"
)

const vpPkg = "github.com/google/go-tdx-guest/zzvp"

func registerNatives(e *Engine) {
	n := e.Natives
	vp := func(name string, f NativeFn) { n[vpPkg+"."+name] = f }

	// ---- inputs ----
	scalar := func(w int) NativeFn {
		return func(ex *Exec, site ssa.Instruction, args []Value) Value {
			return ex.inputScalar(ex.argName(args[0]), smt.BV(w))
		}
	}
	vp("U8", scalar(8))
	vp("U16", scalar(16))
	vp("U32", scalar(32))
	vp("U64", scalar(64))
	vp("Int", scalar(64))
	vp("I64", scalar(64))
	vp("Bool", func(ex *Exec, site ssa.Instruction, args []Value) Value {
		return ex.inputScalar(ex.argName(args[0]), smt.BoolSort)
	})
	vp("IntRange", func(ex *Exec, site ssa.Instruction, args []Value) Value {
		tb := ex.tb()
		v := ex.inputScalar(ex.argName(args[0]), smt.BV(64))
		lo, hi := ex.term(args[1]), ex.term(args[2])
		ex.assume(tb.And(tb.Sle(lo, v), tb.Sle(v, hi)))
		return v
	})
	vp("Bytes", func(ex *Exec, site ssa.Instruction, args []Value) Value {
		n := ex.term(args[1])
		return ex.inputBytes(ex.argName(args[0]), n, n)
	})
	vp("BytesCap", func(ex *Exec, site ssa.Instruction, args []Value) Value {
		return ex.inputBytes(ex.argName(args[0]), ex.term(args[1]), ex.term(args[2]))
	})
	vp("Str", func(ex *Exec, site ssa.Instruction, args []Value) Value {
		tb := ex.tb()
		name := ex.argName(args[0])
		max := ex.term(args[1])
		ln := ex.inputScalarNoRec(name+"#len", smt.BV(64))
		ex.assume(tb.And(tb.Sle(ex.c64(0), ln), tb.Sle(ln, max)))
		b := ex.inputBytesLen(name, ln, ln)
		return &Str{K: strSeq, Snap: b.BO.snapshot(), Off: ex.c64(0), Len: ln}
	})
	vp("StrN", func(ex *Exec, site ssa.Instruction, args []Value) Value {
		n := ex.term(args[1])
		b := ex.inputBytes(ex.argName(args[0]), n, n)
		return &Str{K: strSeq, Snap: b.BO.snapshot(), Off: ex.c64(0), Len: n}
	})
	vp("Atom", func(ex *Exec, site ssa.Instruction, args []Value) Value {
		t := ex.inputScalar(ex.argName(args[0]), smt.BV(64))
		ex.inputs[len(ex.inputs)-1].Kind = "atom"
		return &Str{K: strAtom, Atom: t}
	})
	vp("Choose", func(ex *Exec, site ssa.Instruction, args []Value) Value {
		k := ex.term(args[1])
		if !k.IsConst() {
			ex.fail("vp.Choose with symbolic k")
		}
		return ex.c64(uint64(ex.choose(ex.argName(args[0]), int(k.Int64()))))
	})

	// ---- logic ----
	vp("Assume", func(ex *Exec, site ssa.Instruction, args []Value) Value {
		ex.assume(ex.term(args[0]))
		return nil
	})
	vp("Assert", func(ex *Exec, site ssa.Instruction, args []Value) Value {
		label := ex.argName(args[0])
		ex.eng.rep.Asserts[label]++
		ex.oblige("assert", label, ex.tb().Not(ex.term(args[1])), "assertion "+label+" violated")
		return nil
	})
	vp("Reach", func(ex *Exec, site ssa.Instruction, args []Value) Value {
		label := ex.argName(args[0])
		if _, ok := ex.eng.rep.Reach[label]; !ok {
			ex.eng.rep.Reach[label] = false
		}
		if !ex.eng.rep.Reach[label] && ex.check(ex.term(args[1])) == smt.Sat {
			ex.eng.rep.Reach[label] = true
		}
		return nil
	})
	vp("And", func(ex *Exec, site ssa.Instruction, args []Value) Value {
		return ex.tb().And(ex.boolArgs(args[0])...)
	})
	vp("Or", func(ex *Exec, site ssa.Instruction, args []Value) Value {
		return ex.tb().Or(ex.boolArgs(args[0])...)
	})
	vp("Implies", func(ex *Exec, site ssa.Instruction, args []Value) Value {
		return ex.tb().Implies(ex.term(args[0]), ex.term(args[1]))
	})
	ite := func(ex *Exec, site ssa.Instruction, args []Value) Value {
		return ex.tb().Ite(ex.term(args[0]), ex.term(args[1]), ex.term(args[2]))
	}
	for _, nm := range []string{"IteInt", "IteU8", "IteU16", "IteU32", "IteU64", "IteBool", "IteI64"} {
		vp(nm, ite)
	}
	vp("BytesEq", func(ex *Exec, site ssa.Instruction, args []Value) Value {
		return ex.bytesEqual(args[0].(Bytes), args[1].(Bytes))
	})
	vp("IsConcrete", func(ex *Exec, site ssa.Instruction, args []Value) Value {
		return ex.tb().Bool(ex.term(args[0]).IsConst())
	})
	vp("Symbolic", func(ex *Exec, site ssa.Instruction, args []Value) Value { return ex.tb().True() })
	vp("Unwind", func(ex *Exec, site ssa.Instruction, args []Value) Value {
		ex.unwind = int(ex.term(args[0]).Int64())
		return nil
	})
	vp("ForkReads", func(ex *Exec, site ssa.Instruction, args []Value) Value {
		ex.forkReads = ex.term(args[0]).IsTrue()
		return nil
	})
	vp("File", func(ex *Exec, site ssa.Instruction, args []Value) Value {
		data, err := os.ReadFile(ex.eng.repoFile(ex.argName(args[0])))
		if err != nil {
			ex.fail("vp.File: %v", err)
		}
		return ex.bytesOfConst(data)
	})
	vp("Seed", func(ex *Exec, site ssa.Instruction, args []Value) Value {
		var n uint64
		fmt.Sscan(os.Getenv("VERIF_SEED"), &n)
		return ex.c64(n)
	})
	vp("Emit", func(ex *Exec, site ssa.Instruction, args []Value) Value {
		name := ex.argName(args[0])
		ex.eng.rep.Emits = append(ex.eng.rep.Emits, name+"="+ex.emitValue(args[1]))
		return nil
	})
	vp("MkTime", func(ex *Exec, site ssa.Instruction, args []Value) Value {
		// time.Unix(sec, nsec) in UTC without the division by 1e9: wall = nsec (no monotonic
		// reading), ext = seconds since year 1, loc = nil
		tb := ex.tb()
		sec, nsec := ex.term(args[0]), ex.term(args[1])
		const unixToInternal = (1969*365 + 1969/4 - 1969/100 + 1969/400) * 86400
		return &Struct{F: []Value{nsec, tb.Add(sec, tb.ConstI(unixToInternal, 64)), Ptr{}}}
	})
	// ClockTime(ns): the instant "ns nanoseconds of model time": a time.Time whose arithmetic
	// (Add, Sub, After, Before, Equal, Compare) the engine does on the nanosecond count itself,
	// with no division by 1e9. Marked by a location object of its own.
	vp("ClockTime", func(ex *Exec, site ssa.Instruction, args []Value) Value {
		return ex.clockTime(ex.term(args[0]))
	})
	timeMethod := func(name string, f func(ex *Exec, a, b Value) (Value, bool)) {
		full := "(time.Time)." + name
		n[full] = func(ex *Exec, site ssa.Instruction, args []Value) Value {
			var other Value
			if len(args) > 1 {
				other = args[1]
			}
			if _, ok := ex.clockNanos(args[0]); ok {
				if v, done := f(ex, args[0], other); done {
					return v
				}
			}
			// any other time value: the library's own code
			var fn *ssa.Function
			if c, ok := site.(ssa.CallInstruction); ok {
				fn = c.Common().StaticCallee()
			}
			if fn == nil || fn.String() != full {
				if tp := ex.eng.Prog.ImportedPackage("time"); tp != nil && tp.Type("Time") != nil {
					fn = ex.eng.Prog.LookupMethod(tp.Type("Time").Type(), tp.Pkg, name)
				}
			}
			if fn == nil || fn.Blocks == nil {
				ex.fail("time method %s is not loaded", full)
			}
			if ex.eng.Cfg.Merge[full] || (ex.autoMerge > 0 && ex.autoMergeable(fn)) {
				return ex.callMerged(fn, args, nil, site)
			}
			return ex.callFunc(fn, args, nil, site)
		}
	}
	timeMethod("Add", func(ex *Exec, a, b Value) (Value, bool) {
		ns, _ := ex.clockNanos(a)
		return ex.clockTime(ex.tb().Add(ns, ex.term(b))), true
	})
	timeMethod("Sub", func(ex *Exec, a, b Value) (Value, bool) {
		x, _ := ex.clockNanos(a)
		y, ok := ex.clockNanos(b)
		if !ok {
			return nil, false
		}
		return ex.tb().Sub(x, y), true
	})
	cmpTime := func(name string, mk func(tb *smt.Table, x, y *smt.Term) Value) {
		timeMethod(name, func(ex *Exec, a, b Value) (Value, bool) {
			x, _ := ex.clockNanos(a)
			y, ok := ex.clockNanos(b)
			if !ok {
				return nil, false
			}
			return mk(ex.tb(), x, y), true
		})
	}
	cmpTime("After", func(tb *smt.Table, x, y *smt.Term) Value { return tb.Slt(y, x) })
	cmpTime("Before", func(tb *smt.Table, x, y *smt.Term) Value { return tb.Slt(x, y) })
	cmpTime("Equal", func(tb *smt.Table, x, y *smt.Term) Value { return tb.Eq(x, y) })
	cmpTime("Compare", func(tb *smt.Table, x, y *smt.Term) Value {
		return tb.Ite(tb.Slt(x, y), tb.ConstI(-1, 64), tb.Ite(tb.Slt(y, x), tb.ConstI(1, 64), tb.ConstI(0, 64)))
	})
	timeMethod("IsZero", func(ex *Exec, a, b Value) (Value, bool) { return ex.tb().False(), true })
	vp("EndPath", func(ex *Exec, site ssa.Instruction, args []Value) Value {
		panic(pathEnd{kind: endReturn})
	})
	vp("ExpectPanic", func(ex *Exec, site ssa.Instruction, args []Value) Value {
		ex.expectPanic = ex.argName(args[0])
		return nil
	})
	vp("Note", func(ex *Exec, site ssa.Instruction, args []Value) Value {
		s := ex.argName(args[0])
		if !ex.noteOnce[s] {
			ex.noteOnce[s] = true
			found := false
			for _, x := range ex.eng.rep.Notes {
				if x == s {
					found = true
				}
			}
			if !found {
				ex.eng.rep.Notes = append(ex.eng.rep.Notes, s)
			}
		}
		return nil
	})
	vp("Bound", func(ex *Exec, site ssa.Instruction, args []Value) Value {
		ex.eng.rep.Bounds[ex.argName(args[0])] = ex.argName(args[1])
		return nil
	})

	// ---- model clock and channels (C20) ----
	vp("Now", func(ex *Exec, site ssa.Instruction, args []Value) Value {
		if ex.clock == nil {
			ex.clock = ex.tb().ConstI(0, 64)
		}
		return ex.clock
	})
	vp("Advance", func(ex *Exec, site ssa.Instruction, args []Value) Value {
		if ex.clock == nil {
			ex.clock = ex.tb().ConstI(0, 64)
		}
		ex.clock = ex.tb().Add(ex.clock, ex.term(args[0]))
		return nil
	})
	mkChan := func(ex *Exec, site ssa.Instruction, args []Value) Value {
		if ex.clock == nil {
			ex.clock = ex.tb().ConstI(0, 64)
		}
		ex.objSeq++
		return &Chan{ID: ex.objSeq, FireAt: ex.tb().Add(ex.clock, ex.term(args[0]))}
	}
	vp("TimerChan", mkChan)
	vp("DoneChan", mkChan)
	vp("SameRef", func(ex *Exec, site ssa.Instruction, args []Value) Value {
		a, _ := args[0].(*Iface)
		b, _ := args[1].(*Iface)
		if a == nil || b == nil {
			return ex.tb().Bool(a == nil && b == nil)
		}
		switch x := a.V.(type) {
		case *Map:
			y, _ := b.V.(*Map)
			return ex.tb().Bool(x == y)
		case Bytes:
			y, ok := b.V.(Bytes)
			return ex.tb().Bool(ok && x.BO == y.BO && x.Off == y.Off && x.Len == y.Len)
		case Ptr:
			y, ok := b.V.(Ptr)
			return ex.tb().Bool(ok && x.Obj == y.Obj)
		case *GSlice:
			y, _ := b.V.(*GSlice)
			if x.IsNil() || y.IsNil() {
				return ex.tb().Bool(x.IsNil() && y.IsNil())
			}
			return ex.tb().Bool(x.Vec == y.Vec && x.Off == y.Off && x.Len == y.Len)
		}
		ex.fail("vp.SameRef on %T", a.V)
		return nil
	})

	// ---- uninterpreted functions ----
	vp("UFBool", func(ex *Exec, site ssa.Instruction, args []Value) Value {
		return ex.uf(ex.argName(args[0]), smt.BoolSort, args[1])
	})
	vp("UFU64", func(ex *Exec, site ssa.Instruction, args []Value) Value {
		return ex.uf(ex.argName(args[0]), smt.BV(64), args[1])
	})
	vp("UFBytes", func(ex *Exec, site ssa.Instruction, args []Value) Value {
		n := ex.term(args[1])
		if !n.IsConst() {
			ex.fail("vp.UFBytes with symbolic output length")
		}
		k := int(n.Int64())
		v := ex.uf(ex.argName(args[0]), smt.BV(8*k), args[2])
		bo := ex.newByteObjZero(ex.c64(uint64(k)))
		for i := 0; i < k; i++ {
			// big-endian: byte 0 is the most significant
			ex.storeByte(bo, ex.c64(uint64(i)), ex.tb().Extract(v, 8*(k-i)-1, 8*(k-i-1)))
		}
		return Bytes{BO: bo, Off: ex.c64(0), Len: ex.c64(uint64(k)), Cap: ex.c64(uint64(k))}
	})
	vp("BytesU256", func(ex *Exec, site ssa.Instruction, args []Value) Value {
		// big-endian value of a <=32-byte slice as 4 x uint64? not representable in Go; use ghost-based big model instead
		ex.fail("BytesU256 is not available")
		return nil
	})

	// ---- ghost state ----
	vp("GhostSet", func(ex *Exec, site ssa.Instruction, args []Value) Value {
		g := ex.ghostOf(args[0], true)
		(*g)[ex.argName(args[1])] = args[2]
		return nil
	})
	vp("GhostGet", func(ex *Exec, site ssa.Instruction, args []Value) Value {
		g := ex.ghostOf(args[0], false)
		if g == nil {
			return (*Iface)(nil)
		}
		v, ok := (*g)[ex.argName(args[1])]
		if !ok {
			return (*Iface)(nil)
		}
		return v
	})
	vp("SameObject", func(ex *Exec, site ssa.Instruction, args []Value) Value {
		a, b := args[0].(Bytes), args[1].(Bytes)
		return ex.tb().Bool(a.BO != nil && a.BO == b.BO)
	})

	// ---- heap predicates ----
	vp("Freeze", func(ex *Exec, site ssa.Instruction, args []Value) Value {
		for _, r := range ex.anySlice(args[0]) {
			ex.walk(r, func(x interface{}) {
				switch o := x.(type) {
				case *Obj:
					o.Frozen = true
				case *ByteObj:
					o.Frozen = true
				case *Vec:
					o.Frozen = true
				case *Map:
					o.Frozen = true
				}
			})
		}
		return nil
	})
	vp("FreezeGlobals", func(ex *Exec, site ssa.Instruction, args []Value) Value {
		// package-level variables of the repository become read-only (incl. those touched later)
		ex.frozenAll = true
		for g, o := range ex.globals {
			if g.Pkg == nil || !strings.HasPrefix(g.Pkg.Pkg.Path(), "github.com/google/go-tdx-guest/") || strings.Contains(g.Pkg.Pkg.Path(), "/zzvp") {
				continue
			}
			// the variable and everything reachable from it (backing arrays up to capacity, maps,
			// pointees) - unless it is frozen already (by vp.Freeze: that stays as it is)
			soft := func(already bool, x interface{}) bool {
				if !already {
					ex.softFrozen = append(ex.softFrozen, x)
				}
				return true
			}
			o.Frozen = soft(o.Frozen, o)
			ex.walk(o.V, func(x interface{}) {
				switch r := x.(type) {
				case *Obj:
					r.Frozen = soft(r.Frozen, r)
				case *ByteObj:
					r.Frozen = soft(r.Frozen, r)
				case *Vec:
					r.Frozen = soft(r.Frozen, r)
				case *Map:
					r.Frozen = soft(r.Frozen, r)
				}
			})
		}
		return nil
	})
	vp("Disjoint", func(ex *Exec, site ssa.Instruction, args []Value) Value {
		seen := map[interface{}]bool{}
		ex.walk(args[0], func(x interface{}) {
			if _, ok := x.(*ByteObj); ok {
				seen[x] = true
			}
		})
		dis := true
		ex.walk(args[1], func(x interface{}) {
			if seen[x] {
				dis = false
			}
		})
		return ex.tb().Bool(dis)
	})

	// ---- library natives ----
	n["bytes.Equal"] = func(ex *Exec, site ssa.Instruction, args []Value) Value {
		return ex.bytesEqual(args[0].(Bytes), args[1].(Bytes))
	}
	n["encoding/hex.EncodeToString"] = func(ex *Exec, site ssa.Instruction, args []Value) Value {
		b := args[0].(Bytes)
		if b.BO == nil {
			return ex.concStr("")
		}
		if s, ok := ex.bytesToStr(b).(*Str); ok && s.K == strConc {
			return ex.concStr(hex.EncodeToString([]byte(s.C)))
		}
		nd := ex.newNode(nkHex, nil)
		nd.src, nd.srcOff = b.BO.snapshot(), b.Off
		return &Str{K: strSeq, Snap: nd, Off: ex.c64(0), Len: ex.tb().Add(b.Len, b.Len)}
	}
	n["strings.EqualFold"] = func(ex *Exec, site ssa.Instruction, args []Value) Value {
		return ex.strEqualFold(args[0].(*Str), args[1].(*Str))
	}
	n["fmt.Errorf"] = func(ex *Exec, site ssa.Instruction, args []Value) Value {
		return ex.fmtErrorf(args[0].(*Str), ex.anySlice(args[1]))
	}
	n["fmt.Sprintf"] = func(ex *Exec, site ssa.Instruction, args []Value) Value {
		return ex.sprintf(args[0].(*Str), ex.anySlice(args[1]))
	}
	n["fmt.Sprint"] = func(ex *Exec, site ssa.Instruction, args []Value) Value {
		return ex.freshAtom("fmt.Sprint")
	}
	n["fmt.Fprintf"] = func(ex *Exec, site ssa.Instruction, args []Value) Value {
		return Tuple{ex.c64(0), (*Iface)(nil)}
	}
	n["fmt.Printf"] = n["fmt.Fprintf"]
	n["fmt.Println"] = n["fmt.Fprintf"]
	n["go.uber.org/multierr.Combine"] = func(ex *Exec, site ssa.Instruction, args []Value) Value {
		return ex.multierr(ex.anySlice(args[0]))
	}
	n["go.uber.org/multierr.Append"] = func(ex *Exec, site ssa.Instruction, args []Value) Value {
		return ex.multierr([]Value{args[0], args[1]})
	}
	n["reflect.DeepEqual"] = func(ex *Exec, site ssa.Instruction, args []Value) Value {
		a, _ := args[0].(*Iface)
		b, _ := args[1].(*Iface)
		if a == nil || b == nil {
			return ex.tb().Bool(a == nil && b == nil)
		}
		if !types.Identical(a.Typ, b.Typ) {
			return ex.tb().False()
		}
		return ex.deepEqual(a.V, b.V)
	}
	n["net/http.CanonicalHeaderKey"] = func(ex *Exec, site ssa.Instruction, args []Value) Value {
		s := args[0].(*Str)
		if s.K != strConc {
			ex.fail("CanonicalHeaderKey of symbolic string")
		}
		return ex.concStr(textproto.CanonicalMIMEHeaderKey(s.C))
	}
	flagVar := func(ex *Exec, site ssa.Instruction, args []Value) Value {
		// flag.String(name, value, usage) and friends: a pointer to the default value,
		// registered under the flag's name for flag.Set / flag.Lookup
		t := site.(ssa.Value).Type().(*types.Pointer).Elem()
		p := Ptr{Obj: ex.newObj(t, args[1])}
		if nm, ok := args[0].(*Str); ok && nm.K == strConc {
			if ex.flags == nil {
				ex.flags = map[string]flagRec{}
			}
			ex.flags[nm.C] = flagRec{p: p, t: t}
		}
		return p
	}
	n["flag.String"], n["flag.Bool"], n["flag.Int"], n["flag.Duration"], n["flag.Uint"], n["flag.Uint64"] = flagVar, flagVar, flagVar, flagVar, flagVar, flagVar
	// flag.Set(name, value): what the command line would do for "-name=value"
	n["flag.Set"] = func(ex *Exec, site ssa.Instruction, args []Value) Value {
		nm, ok := args[0].(*Str)
		if !ok || nm.K != strConc {
			ex.fail("flag.Set needs a concrete flag name")
		}
		rec, ok := ex.flags[nm.C]
		if !ok {
			return ex.opaqueError("flag.Set: no such flag -" + nm.C)
		}
		val := args[1].(*Str)
		b, isBasic := rec.t.Underlying().(*types.Basic)
		if !isBasic {
			ex.fail("flag.Set on flag of type %s", rec.t)
		}
		if b.Kind() == types.String {
			ex.store(rec.p, val)
			return (*Iface)(nil)
		}
		if val.K != strConc {
			ex.fail("flag.Set of a non-string flag needs a concrete value")
		}
		switch {
		case b.Kind() == types.Bool:
			v, err := strconv.ParseBool(val.C)
			if err != nil {
				return ex.opaqueError("flag.Set: parse error")
			}
			ex.store(rec.p, ex.tb().Bool(v))
		case rec.t.String() == "time.Duration":
			d, err := time.ParseDuration(val.C)
			if err != nil {
				return ex.opaqueError("flag.Set: parse error")
			}
			ex.store(rec.p, ex.tb().ConstI(int64(d), 64))
		case b.Info()&types.IsUnsigned != 0:
			v, err := strconv.ParseUint(val.C, 0, 64)
			if err != nil {
				return ex.opaqueError("flag.Set: parse error")
			}
			ex.store(rec.p, ex.tb().Const(v, ex.widthOf(rec.t)))
		case b.Info()&types.IsInteger != 0:
			v, err := strconv.ParseInt(val.C, 0, 64)
			if err != nil {
				return ex.opaqueError("flag.Set: parse error")
			}
			ex.store(rec.p, ex.tb().ConstI(v, ex.widthOf(rec.t)))
		default:
			ex.fail("flag.Set on flag of type %s", rec.t)
		}
		return (*Iface)(nil)
	}
	hashSizes := map[int64]int{1: 16, 2: 16, 3: 20, 4: 28, 5: 32, 6: 48, 7: 64, 8: 36, 9: 20, 10: 28, 11: 32, 12: 48, 13: 64, 14: 28, 15: 32, 16: 32, 17: 32, 18: 48, 19: 64}
	n["(crypto.Hash).Size"] = func(ex *Exec, site ssa.Instruction, args []Value) Value {
		tb := ex.tb()
		h := ex.term(args[0])
		known := tb.And(tb.Ule(tb.Const(1, h.S.W), h), tb.Ule(h, tb.Const(19, h.S.W)))
		ex.oblige("panic", "", tb.Not(known), "crypto: Size of unknown hash function")
		res := ex.c64(0)
		for v := int64(19); v >= 1; v-- {
			res = tb.Ite(tb.Eq(h, tb.Const(uint64(v), h.S.W)), ex.c64(uint64(hashSizes[v])), res)
		}
		return res
	}
	// Available: SHA-384 / SHA-512 are linked wherever crypto/sha512 is imported; which of the other
	// known algorithms are registered depends on what else the program links: unknown but fixed
	n["(crypto.Hash).Available"] = func(ex *Exec, site ssa.Instruction, args []Value) Value {
		tb := ex.tb()
		h := ex.term(args[0])
		known := tb.And(tb.Ule(tb.Const(1, h.S.W), h), tb.Ule(h, tb.Const(19, h.S.W)))
		sure := tb.Or(tb.Eq(h, tb.Const(6, h.S.W)), tb.Eq(h, tb.Const(7, h.S.W)))
		return tb.And(known, tb.Or(sure, tb.UF("crypto_hash_registered", smt.BoolSort, h)))
	}
	n["(crypto.Hash).HashFunc"] = func(ex *Exec, site ssa.Instruction, args []Value) Value { return args[0] }
	// single-threaded execution: locks are no-ops
	nop := func(ex *Exec, site ssa.Instruction, args []Value) Value { return nil }
	for _, nm := range []string{"(*sync.RWMutex).RLock", "(*sync.RWMutex).RUnlock"} {
		n[nm] = nop
	}
	// between Lock and Unlock package-level memory may be written (see syncEnter)
	for _, nm := range []string{"(*sync.Mutex).Lock", "(*sync.RWMutex).Lock"} {
		n[nm] = func(ex *Exec, site ssa.Instruction, args []Value) Value { ex.syncEnter(); return nil }
	}
	for _, nm := range []string{"(*sync.Mutex).Unlock", "(*sync.RWMutex).Unlock"} {
		n[nm] = func(ex *Exec, site ssa.Instruction, args []Value) Value { ex.syncLeave(); return nil }
	}
	n["(*sync.Mutex).TryLock"] = func(ex *Exec, site ssa.Instruction, args []Value) Value { return ex.tb().True() }
	n["errors.As"] = func(ex *Exec, site ssa.Instruction, args []Value) Value {
		return ex.errorsAs(args[0], args[1])
	}
	n["errors.Unwrap"] = func(ex *Exec, site ssa.Instruction, args []Value) Value {
		iv, _ := args[0].(*Iface)
		if iv == nil {
			return (*Iface)(nil)
		}
		ws := ex.wrapsOf(iv)
		if len(ws) == 1 && ex.isSingleWrap(iv) {
			return ws[0]
		}
		return (*Iface)(nil)
	}
	n["errors.Is"] = func(ex *Exec, site ssa.Instruction, args []Value) Value {
		var walk func(e *Iface, depth int) *smt.Term
		target, _ := args[1].(*Iface)
		walk = func(e *Iface, depth int) *smt.Term {
			if e == nil || depth > 10 {
				return ex.tb().Bool(e == nil && target == nil)
			}
			r := ex.ifaceEq(e, target)
			for _, w := range ex.wrapsOf(e) {
				wi, _ := w.(*Iface)
				r = ex.tb().Or(r, walk(wi, depth+1))
			}
			return r
		}
		e, _ := args[0].(*Iface)
		return walk(e, 0)
	}
	// concrete-string helpers (flag and path handling of the check tool)
	conc := func(ex *Exec, v Value, what string) string {
		s, ok := v.(*Str)
		if !ok || s.K != strConc {
			ex.fail("%s needs a concrete string", what)
		}
		return s.C
	}
	n["strings.HasPrefix"] = func(ex *Exec, site ssa.Instruction, args []Value) Value {
		return ex.tb().Bool(strings.HasPrefix(conc(ex, args[0], "strings.HasPrefix"), conc(ex, args[1], "strings.HasPrefix")))
	}
	n["strings.HasSuffix"] = func(ex *Exec, site ssa.Instruction, args []Value) Value {
		return ex.tb().Bool(strings.HasSuffix(conc(ex, args[0], "strings.HasSuffix"), conc(ex, args[1], "strings.HasSuffix")))
	}
	n["strings.TrimSpace"] = func(ex *Exec, site ssa.Instruction, args []Value) Value {
		in := conc(ex, args[0], "strings.TrimSpace")
		out := strings.TrimSpace(in)
		if out == in {
			return args[0] // unchanged: keeps any ghost state of the string
		}
		return ex.concStr(out)
	}
	n["strings.Split"] = func(ex *Exec, site ssa.Instruction, args []Value) Value {
		parts := strings.Split(conc(ex, args[0], "strings.Split"), conc(ex, args[1], "strings.Split"))
		ex.objSeq++
		v := &Vec{ID: ex.objSeq}
		st := site.(ssa.Value).Type().Underlying().(*types.Slice).Elem()
		for _, p := range parts {
			v.Elems = append(v.Elems, ex.newObj(st, ex.concStr(p)))
		}
		return &GSlice{Vec: v, Len: len(parts), Cap: len(parts)}
	}
	n["encoding/hex.DecodeString"] = func(ex *Exec, site ssa.Instruction, args []Value) Value {
		b, err := hex.DecodeString(conc(ex, args[0], "hex.DecodeString"))
		if err != nil {
			return Tuple{Bytes{}, ex.opaqueError("hex.DecodeString")}
		}
		return Tuple{ex.bytesOfConst(b), (*Iface)(nil)}
	}
	n["strconv.ParseUint"] = func(ex *Exec, site ssa.Instruction, args []Value) Value {
		s := conc(ex, args[0], "strconv.ParseUint")
		base, bits := int(ex.term(args[1]).Int64()), int(ex.term(args[2]).Int64())
		v, err := strconv.ParseUint(s, base, bits)
		if err != nil {
			return Tuple{ex.c64(v), ex.opaqueError("strconv.ParseUint")}
		}
		return Tuple{ex.c64(v), (*Iface)(nil)}
	}
	n["time.Now"] = func(ex *Exec, site ssa.Instruction, args []Value) Value {
		ex.fail("UNMODELLED callee time.Now (harness must supply a clock model)")
		return nil
	}
}

// ---- helpers ----

// clockTime / clockNanos: time.Time values of the model clock (see vp.ClockTime).
func (ex *Exec) clockTime(ns *smt.Term) Value {
	if ex.clockLoc == nil {
		ex.clockLoc = ex.newObj(nil, &Struct{})
		ex.clockLoc.Name = "model clock"
	}
	return &Struct{F: []Value{ex.tb().Const(0, 64), ns, Ptr{Obj: ex.clockLoc}}}
}

func (ex *Exec) clockNanos(v Value) (*smt.Term, bool) {
	st, ok := v.(*Struct)
	if !ok || len(st.F) != 3 || ex.clockLoc == nil {
		return nil, false
	}
	p, ok := st.F[2].(Ptr)
	if !ok || p.Obj != ex.clockLoc {
		return nil, false
	}
	return st.F[1].(*smt.Term), true
}

func (ex *Exec) argName(v Value) string {
	s, ok := v.(*Str)
	if !ok || s.K != strConc {
		ex.fail("intrinsic needs a constant string argument")
	}
	return s.C
}

func (ex *Exec) assume(c *smt.Term) {
	ex.eng.rep.Assumes++
	if c.IsTrue() {
		return
	}
	if c.IsFalse() {
		panic(pathEnd{kind: endAssume})
	}
	// replayed prefixes already know the assumption is feasible
	if ex.tr.cursor >= len(ex.tr.prefix) {
		if ex.check(c) == smt.Unsat {
			panic(pathEnd{kind: endAssume})
		}
	}
	ex.addPC(c)
}

func (ex *Exec) inputScalarNoRec(name string, s smt.Sort) *smt.Term {
	return ex.tb().Sym(ex.freshName(name), s)
}

func (ex *Exec) inputScalar(name string, s smt.Sort) *smt.Term {
	nm := ex.freshName(name)
	t := ex.tb().Sym(nm, s)
	ex.inputs = append(ex.inputs, inputRec{Name: nm, Kind: "scalar", T: t})
	return t
}

func (ex *Exec) inputBytesLen(name string, n, c *smt.Term) Bytes {
	nm := ex.freshName(name)
	bo := ex.newByteObjSym(nm, c)
	rec := inputRec{Name: nm, Kind: "bytes", Arr: bo.head.arr, Len: n}
	if c != n {
		rec.Cap = c
	}
	ex.inputs = append(ex.inputs, rec)
	return Bytes{BO: bo, Off: ex.c64(0), Len: n, Cap: c}
}

func (ex *Exec) inputBytes(name string, n, c *smt.Term) Bytes {
	tb := ex.tb()
	ex.assume(tb.And(tb.Sle(ex.c64(0), n), tb.Sle(n, c), tb.Sle(c, ex.c64(1<<40))))
	return ex.inputBytesLen(name, n, c)
}

func (ex *Exec) freshAtom(what string) *Str {
	return &Str{K: strAtom, Atom: ex.tb().Sym(ex.freshName("atom:"+what), smt.BV(64))}
}

func (ex *Exec) boolArgs(v Value) []*smt.Term {
	var out []*smt.Term
	g, _ := v.(*GSlice)
	if g.IsNil() {
		return nil
	}
	for i := 0; i < g.Len; i++ {
		out = append(out, ex.term(g.Vec.Elems[g.Off+i].V))
	}
	return out
}

// anySlice unpacks a ...any argument.
func (ex *Exec) anySlice(v Value) []Value {
	g, _ := v.(*GSlice)
	if g.IsNil() {
		return nil
	}
	out := make([]Value, g.Len)
	for i := range out {
		out[i] = g.Vec.Elems[g.Off+i].V
	}
	return out
}

func (ex *Exec) bytesEqual(a, b Bytes) *smt.Term {
	tb := ex.tb()
	al, bl := a.lenOrZero(ex), b.lenOrZero(ex)
	if a.BO == nil || b.BO == nil {
		return tb.Eq(al, bl)
	}
	return ex.seqEq(a.BO.head, a.Off, al, b.BO.head, b.Off, bl)
}

// uf applies an uninterpreted function to boxed arguments.
func (ex *Exec) uf(name string, ret smt.Sort, boxed Value) *smt.Term {
	var ts []*smt.Term
	sig := ""
	for _, a := range ex.anySlice(boxed) {
		t := ex.ufArg(a)
		if t == nil {
			continue
		}
		ts = append(ts, t)
		if t.S.K == smt.KBool {
			sig += "_b"
		} else {
			sig += "_" + itoa(t.S.W)
		}
	}
	return ex.tb().UF(name+sig, ret, ts...)
}

func (ex *Exec) ufArg(a Value) *smt.Term {
	tb := ex.tb()
	if iv, ok := a.(*Iface); ok {
		if iv == nil {
			return tb.Const(0, 64)
		}
		a = iv.V
	}
	switch x := a.(type) {
	case *smt.Term:
		return x
	case *Str:
		return ex.strID(x)
	case Bytes:
		if x.BO == nil {
			return nil
		}
		n, ok := ex.pinnedLen(x.Len)
		if !ok {
			ex.fail("UF argument is a byte slice whose length is not fixed on this path")
		}
		if n == 0 {
			return nil
		}
		parts := make([]*smt.Term, n)
		for i := 0; i < n; i++ {
			parts[i] = ex.viewByte(x, ex.c64(uint64(i)))
		}
		return tb.ConcatMany(parts)
	case ByteArr:
		n := int(x.BO.Cap.Int64())
		parts := make([]*smt.Term, n)
		for i := 0; i < n; i++ {
			parts[i] = ex.readByte(x.BO, ex.c64(uint64(i)))
		}
		return tb.ConcatMany(parts)
	case Ptr:
		if x.Obj == nil {
			return tb.Const(0, 64)
		}
		return tb.Const(uint64(x.Obj.ID), 64)
	}
	ex.fail("unsupported UF argument %T", a)
	return nil
}

func (ex *Exec) ghostOf(v Value, create bool) *map[string]Value {
	if iv, ok := v.(*Iface); ok {
		if iv == nil {
			ex.fail("ghost state of nil")
		}
		v = iv.V
	}
	var g *map[string]Value
	switch x := v.(type) {
	case Ptr:
		if x.Obj == nil {
			ex.fail("ghost state of nil pointer")
		}
		g = &x.Obj.Ghost
	case Bytes:
		if x.BO == nil {
			if create {
				ex.fail("ghost state of nil slice")
			}
			return nil
		}
		g = &x.BO.Ghost
	case *Str:
		g = &x.Ghost
	default:
		ex.fail("ghost state on %T", v)
	}
	if *g == nil {
		if !create {
			return nil
		}
		*g = map[string]Value{}
	}
	return g
}

// walk visits every heap object reachable from v.
func (ex *Exec) walk(v Value, visit func(x interface{})) {
	seen := map[interface{}]bool{}
	var rec func(v Value)
	rec = func(v Value) {
		switch x := v.(type) {
		case Ptr:
			if x.Obj == nil || seen[x.Obj] {
				return
			}
			seen[x.Obj] = true
			visit(x.Obj)
			rec(x.Obj.V)
		case BytePtr:
			if !seen[x.BO] {
				seen[x.BO] = true
				visit(x.BO)
			}
		case Bytes:
			if x.BO != nil && !seen[x.BO] {
				seen[x.BO] = true
				visit(x.BO)
			}
		case ByteArr:
			if !seen[x.BO] {
				seen[x.BO] = true
				visit(x.BO)
			}
		case *Struct:
			for _, f := range x.F {
				rec(f)
			}
		case *GArr:
			rec(&GSlice{Vec: x.Vec, Len: len(x.Vec.Elems), Cap: len(x.Vec.Elems)})
		case *GSlice:
			if x.IsNil() || seen[x.Vec] {
				return
			}
			seen[x.Vec] = true
			visit(x.Vec)
			// the whole backing array up to capacity is reachable memory
			for _, o := range x.Vec.Elems {
				if !seen[o] {
					seen[o] = true
					visit(o)
					rec(o.V)
				}
			}
		case *Iface:
			if x != nil {
				rec(x.V)
			}
		case *Map:
			if x == nil || seen[x] {
				return
			}
			seen[x] = true
			visit(x)
			for _, e := range x.M {
				rec(e)
			}
		case *Func:
			if x != nil {
				for _, e := range x.Env {
					rec(e)
				}
			}
		case Tuple:
			for _, e := range x {
				rec(e)
			}
		}
	}
	rec(v)
}

// ---- errors and formatting ----

func (ex *Exec) errorStringType() types.Type {
	if ex.eng.errStringType != nil {
		return ex.eng.errStringType
	}
	p := ex.eng.Prog.ImportedPackage("errors")
	if p == nil {
		ex.fail("package errors is not loaded")
	}
	t := p.Type("errorString")
	ex.eng.errStringType = types.NewPointer(t.Type())
	return ex.eng.errStringType
}

func (ex *Exec) opaqueError(what string) *Iface {
	pt := ex.errorStringType()
	o := ex.newObj(pt.(*types.Pointer).Elem(), &Struct{F: []Value{ex.freshAtom("errmsg")}})
	o.Name = "error(" + what + ")"
	return &Iface{Typ: pt, V: Ptr{Obj: o}}
}

func (ex *Exec) fmtErrorf(format *Str, args []Value) Value {
	if format.K != strConc {
		ex.fail("fmt.Errorf with non-constant format")
	}
	// %w wraps: keep the wrapped operands reachable for errors.As / Is / Unwrap
	var wrapped []Value
	verbs := parseVerbs(format.C)
	for i, vb := range verbs {
		if vb == 'w' && i < len(args) {
			wrapped = append(wrapped, args[i])
		}
	}
	e := ex.opaqueError("fmt.Errorf " + fmt.Sprintf("%q", format.C))
	if len(wrapped) > 0 {
		o := e.V.(Ptr).Obj
		o.Ghost = map[string]Value{}
		for i, w := range wrapped {
			o.Ghost[fmt.Sprintf("wrap%d", i)] = w
		}
	}
	return e
}

func parseVerbs(f string) []byte {
	var out []byte
	for i := 0; i < len(f); i++ {
		if f[i] != '%' {
			continue
		}
		i++
		for i < len(f) && strings.IndexByte("+-# 0123456789.*[]", f[i]) >= 0 {
			i++
		}
		if i < len(f) && f[i] != '%' {
			out = append(out, f[i])
		}
	}
	return out
}

func (ex *Exec) sprintf(format *Str, args []Value) Value {
	if format.K != strConc {
		ex.fail("fmt.Sprintf with non-constant format")
	}
	// fully concrete arguments: use the real formatter
	goArgs := make([]interface{}, 0, len(args))
	allConc := true
	for _, a := range args {
		g, ok := ex.toGo(a)
		if !ok {
			allConc = false
			break
		}
		goArgs = append(goArgs, g)
	}
	if allConc {
		return ex.concStr(fmt.Sprintf(format.C, goArgs...))
	}
	// a rope of literal text and formatted arguments (strings, integers)
	if res, ok := ex.sprintfRope(format.C, args); ok {
		return res
	}
	return ex.freshAtom("fmt.Sprintf")
}

func plainVerbs(f string) bool {
	for i := 0; i < len(f); i++ {
		if f[i] == '%' {
			if i+1 >= len(f) || strings.IndexByte("svd", f[i+1]) < 0 {
				return false
			}
			i++
		}
	}
	return true
}

// toGo converts a fully concrete boxed value to a native Go value.
func (ex *Exec) toGo(a Value) (interface{}, bool) {
	iv, ok := a.(*Iface)
	if !ok {
		return nil, false
	}
	if iv == nil {
		return nil, true
	}
	if iv.NilC != nil {
		return nil, false
	}
	switch x := iv.V.(type) {
	case *smt.Term:
		if !x.IsConst() {
			return nil, false
		}
		if x.S.K == smt.KBool {
			return x.IsTrue(), true
		}
		_, signed, _ := typeWidth(iv.Typ)
		if signed {
			return x.Int64(), true
		}
		return x.Uint64(), true
	case *Str:
		if x.K == strConc {
			return x.C, true
		}
	}
	return nil, false
}

func (ex *Exec) multierr(errs []Value) Value {
	tb := ex.tb()
	var nonNil []*Iface
	allNil := tb.True()
	for _, e := range errs {
		iv, _ := e.(*Iface)
		if iv == nil {
			continue
		}
		nonNil = append(nonNil, iv)
		allNil = tb.And(allNil, ex.ifaceNil(iv))
	}
	if len(nonNil) == 0 {
		return (*Iface)(nil)
	}
	if len(nonNil) == 1 {
		return nonNil[0]
	}
	e := ex.opaqueError("multierr")
	o := e.V.(Ptr).Obj
	o.Ghost = map[string]Value{}
	for i, w := range nonNil {
		o.Ghost[fmt.Sprintf("wrap%d", i)] = w
	}
	if allNil.IsFalse() {
		return e
	}
	return &Iface{Typ: e.Typ, V: e.V, NilC: allNil}
}

func (ex *Exec) deepEqual(a, b Value) *smt.Term {
	tb := ex.tb()
	switch x := a.(type) {
	case *smt.Term:
		return tb.Eq(x, ex.term(b))
	case *Str:
		return ex.strEq(x, b.(*Str))
	case *Struct:
		y := b.(*Struct)
		var cs []*smt.Term
		for i := range x.F {
			cs = append(cs, ex.deepEqual(x.F[i], y.F[i]))
		}
		return tb.And(cs...)
	case Bytes:
		y := b.(Bytes)
		if (x.BO == nil) != (y.BO == nil) {
			return tb.False()
		}
		return ex.bytesEqual(x, y)
	case ByteArr:
		return ex.valueEq(a, b)
	case *GSlice:
		y, _ := b.(*GSlice)
		if x.IsNil() != y.IsNil() {
			return tb.False()
		}
		if x.IsNil() {
			return tb.True()
		}
		if x.Len != y.Len {
			return tb.False()
		}
		var cs []*smt.Term
		for i := 0; i < x.Len; i++ {
			cs = append(cs, ex.deepEqual(x.Vec.Elems[x.Off+i].V, y.Vec.Elems[y.Off+i].V))
		}
		return tb.And(cs...)
	case *GArr:
		y := b.(*GArr)
		var cs []*smt.Term
		for i := range x.Vec.Elems {
			cs = append(cs, ex.deepEqual(x.Vec.Elems[i].V, y.Vec.Elems[i].V))
		}
		return tb.And(cs...)
	case Ptr:
		y := b.(Ptr)
		if x.Obj == nil || y.Obj == nil {
			return tb.Bool(x.Obj == nil && y.Obj == nil)
		}
		if x.Obj == y.Obj {
			return tb.True()
		}
		return ex.deepEqual(ex.loadPath(x.Obj, x.Path), ex.loadPath(y.Obj, y.Path))
	case *Iface:
		y, _ := b.(*Iface)
		if x == nil || y == nil {
			return tb.Bool(x == nil && y == nil)
		}
		if !types.Identical(x.Typ, y.Typ) {
			return tb.False()
		}
		return ex.deepEqual(x.V, y.V)
	case *Map:
		y, _ := b.(*Map)
		if x == nil || y == nil {
			return tb.Bool(x == nil && y == nil)
		}
		if len(x.M) != len(y.M) {
			return tb.False()
		}
		var ks []string
		for k := range x.M {
			ks = append(ks, k)
		}
		sort.Strings(ks)
		var cs []*smt.Term
		for _, k := range ks {
			yv, ok := y.M[k]
			if !ok {
				return tb.False()
			}
			cs = append(cs, ex.deepEqual(x.M[k], yv))
		}
		return tb.And(cs...)
	case *Func:
		y, _ := b.(*Func)
		return tb.Bool(x == nil && y == nil)
	}
	ex.fail("reflect.DeepEqual on %T", a)
	return nil
}


// wrapsOf lists the errors an error value wraps (fmt.Errorf %w, multierr).
func (ex *Exec) wrapsOf(e *Iface) []Value {
	var out []Value
	if p, ok := e.V.(Ptr); ok && p.Obj != nil && p.Obj.Ghost != nil {
		for i := 0; ; i++ {
			w, ok := p.Obj.Ghost[fmt.Sprintf("wrap%d", i)]
			if !ok {
				break
			}
			out = append(out, w)
		}
	}
	if len(out) > 0 || e.Typ == nil {
		return out
	}
	// an error type with an Unwrap method of its own (errors.Join, types of the module)
	if sel := ex.eng.Prog.MethodSets.MethodSet(e.Typ).Lookup(nil, "Unwrap"); sel == nil {
		return nil
	}
	m := ex.eng.Prog.LookupMethod(e.Typ, nil, "Unwrap")
	if m == nil || m.Blocks == nil || m.Signature.Params().Len() != 0 || m.Signature.Results().Len() != 1 || !ex.eng.transparent(m) {
		return nil
	}
	switch res := ex.invoke(&Func{Fn: m}, []Value{e.V}, nil).(type) {
	case *Iface:
		if res != nil {
			out = append(out, res)
		}
	case *GSlice:
		if !res.IsNil() {
			for i := 0; i < res.Len; i++ {
				out = append(out, res.Vec.Elems[res.Off+i].V)
			}
		}
	}
	return out
}

func (ex *Exec) isSingleWrap(e *Iface) bool {
	p, ok := e.V.(Ptr)
	return ok && p.Obj != nil && strings.HasPrefix(p.Obj.Name, "error(fmt.Errorf")
}

// errorsAs models errors.As over the engine's error values.
func (ex *Exec) errorsAs(errV, targetV Value) Value {
	tb := ex.tb()
	ti, _ := targetV.(*Iface)
	if ti == nil {
		ex.oblige("panic", "", tb.True(), "errors: target cannot be nil")
		panic(pathEnd{kind: endPanic})
	}
	tp, ok := ti.V.(Ptr)
	pt, isPtr := ti.Typ.Underlying().(*types.Pointer)
	if !ok || !isPtr || tp.Obj == nil {
		ex.oblige("panic", "", tb.True(), "errors: target must be a non-nil pointer")
		panic(pathEnd{kind: endPanic})
	}
	want := pt.Elem()
	var walk func(e *Iface, depth int) bool
	walk = func(e *Iface, depth int) bool {
		if e == nil || depth > 16 {
			return false
		}
		if e.NilC != nil {
			if ex.branch(e.NilC, nil) {
				return false
			}
			e = &Iface{Typ: e.Typ, V: e.V}
		}
		match := false
		if types.IsInterface(want) {
			match = types.Implements(e.Typ, want.Underlying().(*types.Interface))
		} else {
			match = types.Identical(e.Typ, want)
		}
		if match {
			if types.IsInterface(want) {
				ex.store(tp, e)
			} else {
				ex.store(tp, e.V)
			}
			return true
		}
		for _, w := range ex.wrapsOf(e) {
			wi, _ := w.(*Iface)
			if walk(wi, depth+1) {
				return true
			}
		}
		return false
	}
	e, _ := errV.(*Iface)
	return tb.Bool(walk(e, 0))
}


// sprintfRope handles %s %v %d %x %q-free formats with optional zero padding for integers.
func (ex *Exec) sprintfRope(f string, args []Value) (Value, bool) {
	var res Value = ex.concStr("")
	ai := 0
	lit := ""
	flush := func() {
		if lit != "" {
			res = ex.strConcat(res.(*Str), ex.concStr(lit))
			lit = ""
		}
	}
	for i := 0; i < len(f); i++ {
		if f[i] != '%' {
			lit += string(f[i])
			continue
		}
		i++
		if i >= len(f) {
			return nil, false
		}
		if f[i] == '%' {
			lit += "%"
			continue
		}
		zero := false
		width := 0
		if f[i] == '0' {
			zero = true
			i++
		}
		for i < len(f) && f[i] >= '0' && f[i] <= '9' {
			width = width*10 + int(f[i]-'0')
			i++
		}
		if i >= len(f) || ai >= len(args) {
			return nil, false
		}
		verb := f[i]
		iv, _ := args[ai].(*Iface)
		ai++
		if iv == nil || iv.NilC != nil {
			return nil, false
		}
		flush()
		switch x := iv.V.(type) {
		case *Str:
			if (verb != 's' && verb != 'v') || width != 0 || x.K == strAtom {
				return nil, false
			}
			res = ex.strConcat(res.(*Str), x)
		case *smt.Term:
			if x.S.K != smt.KBV {
				return nil, false
			}
			_, signed, isInt := typeWidth(iv.Typ)
			if !isInt {
				return nil, false
			}
			base := 10
			switch verb {
			case 'd', 'v':
			case 'x':
				base = 16
			default:
				return nil, false
			}
			if signed && !x.IsConst() {
				// symbolic signed values: only when known non-negative
				if ex.ivalOf(x).hi.BitLen() >= x.S.W {
					return nil, false
				}
			}
			s, ok := ex.fmtInt(x, signed, base, width, zero).(*Str)
			if !ok || s.K == strAtom {
				return nil, false
			}
			res = ex.strConcat(res.(*Str), s)
		default:
			return nil, false
		}
	}
	flush()
	if ai != len(args) {
		return nil, false
	}
	return res, true
}


// emitValue renders a fully concrete value for the translator self-test.
func (ex *Exec) emitValue(v Value) string {
	signed := false
	if iv, ok := v.(*Iface); ok && iv != nil && iv.Typ != nil {
		if b, isB := iv.Typ.Underlying().(*types.Basic); isB && b.Info()&types.IsInteger != 0 && b.Info()&types.IsUnsigned == 0 {
			signed = true
		}
	}
	if iv, ok := v.(*Iface); ok {
		if iv == nil {
			return "nil"
		}
		if iv.NilC != nil {
			ex.fail("vp.Emit of a symbolic value")
		}
		if _, isErr := iv.V.(Ptr); isErr && types.Implements(iv.Typ, errorIface) {
			return "error"
		}
		v = iv.V
	}
	switch x := v.(type) {
	case *smt.Term:
		if !x.IsConst() {
			ex.fail("vp.Emit of a symbolic value")
		}
		if x.S.K == smt.KBool {
			return fmt.Sprint(x.IsTrue())
		}
		if signed {
			return fmt.Sprint(x.Int64())
		}
		return x.Val.String()
	case *Str:
		if x.K != strConc {
			s, ok := ex.bytesToStr(ex.strToBytes(x).(Bytes)).(*Str)
			if !ok || s.K != strConc {
				ex.fail("vp.Emit of a symbolic string")
			}
			return "s:" + s.C
		}
		return "s:" + x.C
	case Bytes:
		if x.BO == nil {
			return "b:"
		}
		n, ok := concreteLen(x.Len)
		if !ok || !x.Off.IsConst() {
			ex.fail("vp.Emit of bytes with symbolic length")
		}
		buf := make([]byte, n)
		for i := 0; i < n; i++ {
			t := ex.readByte(x.BO, ex.c64(x.Off.Uint64()+uint64(i)))
			if !t.IsConst() {
				ex.fail("vp.Emit of symbolic bytes")
			}
			buf[i] = byte(t.Uint64())
		}
		return "b:" + hex.EncodeToString(buf)
	case Ptr:
		if x.Obj == nil {
			return "nil"
		}
		return "ptr"
	}
	ex.fail("vp.Emit of %T", v)
	return ""
}

var errorIface = types.Universe.Lookup("error").Type().Underlying().(*types.Interface)
