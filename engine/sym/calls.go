package sym

import (
	"sync"
	"reflect"
	"fmt"
	"go/types"
	"os"
	"strings"

	"gosym/smt"

	"golang.org/x/tools/go/ssa"
)

// prepareCall evaluates the callee and the arguments of a call.
func (ex *Exec) prepareCall(f *frame, c *ssa.CallCommon) (*Func, []Value) {
	args := make([]Value, 0, len(c.Args)+1)
	if c.IsInvoke() {
		recv := ex.get(f, c.Value)
		iv, _ := recv.(*Iface)
		if iv != nil && iv.NilC != nil {
			ex.oblige("nil-deref", "", iv.NilC, "method call on nil interface")
			iv = &Iface{Typ: iv.Typ, V: iv.V}
		}
		if iv == nil {
			ex.nilDeref("method " + c.Method.Name() + " called on nil interface")
		}
		fn := ex.eng.Prog.LookupMethod(iv.Typ, c.Method.Pkg(), c.Method.Name())
		if fn == nil {
			ex.fail("no method %s on dynamic type %s", c.Method.Name(), iv.Typ)
		}
		args = append(args, iv.V)
		for _, a := range c.Args {
			args = append(args, ex.get(f, a))
		}
		return &Func{Fn: fn}, args
	}
	fv, ok := ex.get(f, c.Value).(*Func)
	if !ok {
		ex.fail("call of non-function %T", ex.get(f, c.Value))
	}
	if fv == nil {
		ex.nilDeref("call of nil function")
	}
	for _, a := range c.Args {
		args = append(args, ex.get(f, a))
	}
	return fv, args
}

func (ex *Exec) doCall(f *frame, c *ssa.CallCommon, site ssa.Instruction) Value {
	fv, args := ex.prepareCall(f, c)
	if fv.Builtin != nil {
		return ex.builtin(fv.Builtin.Name(), args, c, site)
	}
	return ex.invoke(fv, args, site)
}

func (ex *Exec) invoke(fv *Func, args []Value, site ssa.Instruction) Value {
	if fv.Builtin != nil {
		return ex.builtin(fv.Builtin.Name(), args, nil, site)
	}
	if fv.HasRecv {
		args = append([]Value{fv.Recv}, args...)
	}
	fn := fv.Fn
	name := fn.String()
	if fn.Pkg != nil && fn.Name() == "init" && fn.Synthetic != "" {
		return ex.pkgInit(fn)
	}
	if strings.HasPrefix(name, ex.eng.vpPath()) {
		if nf, ok := ex.eng.Natives[name]; ok {
			return nf(ex, site, args)
		}
		ex.fail("unknown intrinsic %s", name)
	}
	if m, ok := ex.eng.Models[name]; ok {
		ex.eng.rep.Stubs[name]++
		return ex.callFunc(m, args, nil, site)
	}
	if nf, ok := ex.eng.Natives[name]; ok {
		if !strings.HasPrefix(name, "github.com/google/logger") {
			ex.eng.rep.Stubs[name+" [native]"]++
		}
		return nf(ex, site, args)
	}
	// generic instantiations and methods via origin name
	if o := fn.Origin(); o != nil {
		if nf, ok := ex.eng.Natives[o.String()]; ok {
			ex.eng.rep.Stubs[o.String()+" [native]"]++
			return nf(ex, site, args)
		}
	}
	if pk := fnPkgPath(fn); pk == "github.com/google/logger" {
		// logging has no effect on any property: arguments were evaluated by the caller
		return ex.zeroResults(fn)
	}
	if ex.eng.Cfg.SkipInit[name] {
		return ex.zeroResults(fn)
	}
	if !ex.eng.transparent(fn) {
		ex.fail("UNMODELLED callee %s", name)
	}
	if fn.Blocks == nil {
		ex.fail("UNMODELLED callee %s (external)", name)
	}
	if ex.eng.Cfg.Merge[name] || (ex.autoMerge > 0 && ex.autoMergeable(fn)) {
		return ex.callMerged(fn, args, fv.Env, site)
	}
	return ex.callFunc(fn, args, fv.Env, site)
}

func fnPkgPath(fn *ssa.Function) string {
	if fn.Pkg != nil {
		return fn.Pkg.Pkg.Path()
	}
	if o := fn.Object(); o != nil && o.Pkg() != nil {
		return o.Pkg().Path()
	}
	if fn.Parent() != nil {
		return fnPkgPath(fn.Parent())
	}
	return ""
}

func (ex *Exec) zeroResults(fn *ssa.Function) Value {
	res := fn.Signature.Results()
	switch res.Len() {
	case 0:
		return nil
	case 1:
		return ex.zero(res.At(0).Type())
	}
	t := make(Tuple, res.Len())
	for i := range t {
		t[i] = ex.zero(res.At(i).Type())
	}
	return t
}

func (e *Engine) vpPath() string { return "github.com/google/go-tdx-guest/zzvp." }

// pkgInit runs a package initialiser: bodies of repository packages only.
func (ex *Exec) pkgInit(fn *ssa.Function) Value {
	p := fn.Pkg
	if ex.eng.SkipInitPkg(p) {
		return nil
	}
	if ex.initDone[p] {
		return nil
	}
	ex.initDone[p] = true
	return ex.callFunc(fn, nil, nil, nil)
}

func (e *Engine) SkipInitPkg(p *ssa.Package) bool {
	path := p.Pkg.Path()
	if strings.Contains(path, "/go-tdx-guest/proto/") || strings.HasSuffix(path, "/go-tdx-guest/testing") || strings.Contains(path, "/go-tdx-guest/testing/") || strings.Contains(path, "/go-tdx-guest/zzvp") {
		// generated protobuf registration and test data are not part of any property
		return true
	}
	for _, rp := range e.RepoPkgs {
		if rp == p {
			return false
		}
	}
	return true
}

// globalInit provides values for globals that are initialised outside of init
// code the engine runs (go:embed data, well known library variables).
func (e *Engine) globalInit(ex *Exec, g *ssa.Global) (Value, bool) {
	name := g.String()
	switch name {
	case "github.com/google/go-tdx-guest/verify.defaultRootCertByte":
		data, err := os.ReadFile(e.repoFile("verify/trusted_root.pem"))
		if err != nil {
			ex.fail("cannot read embedded root: %v", err)
		}
		b := ex.bytesOfConst(data)
		b.BO.Name = "verify.defaultRootCertByte"
		return b, true
	}
	return nil, false
}

var RepoDir = "/repo"

func (e *Engine) repoFile(rel string) string { return RepoDir + "/" + rel }

// scoped runs f with cond added to the path condition and forgets cond, and
// everything derived from it, afterwards. f must not fork.
func (ex *Exec) scoped(cond *smt.Term, f func()) {
	n0 := len(ex.pc)
	cp := func(m map[int]ival) map[int]ival {
		c := make(map[int]ival, len(m))
		for k, v := range m {
			c[k] = v
		}
		return c
	}
	savedPinned, savedFacts, savedSubst, savedInt := ex.pinned, ex.facts, ex.subst, ex.intFacts
	savedRC, savedUB := ex.readCache, ex.ubCache
	ex.pinned = make(map[int]int, len(savedPinned))
	for k, v := range savedPinned {
		ex.pinned[k] = v
	}
	ex.facts = cp(savedFacts)
	ex.subst = make(map[int]*smt.Term, len(savedSubst))
	for k, v := range savedSubst {
		ex.subst[k] = v
	}
	ex.intFacts = make(map[string]ival, len(savedInt))
	for k, v := range savedInt {
		ex.intFacts[k] = v
	}
	ex.ubCache = make(map[int]int, len(savedUB))
	for k, v := range savedUB {
		ex.ubCache[k] = v
	}
	ex.readCache = &readCache{m: map[[2]int]*smt.Term{}, up: savedRC}
	ex.ivalMemo, ex.nzMemo = nil, nil
	defer func() {
		for _, c := range ex.pc[n0:] {
			delete(ex.pcSet, c.ID)
		}
		ex.pc = ex.pc[:n0]
		ex.pinned, ex.facts, ex.subst, ex.intFacts = savedPinned, savedFacts, savedSubst, savedInt
		ex.readCache, ex.ubCache = savedRC, savedUB
		ex.ivalMemo, ex.nzMemo = nil, nil
	}()
	ex.addPC(cond)
	f()
}

// ---- merged calls ----

const mergePathLimit = 1024

// autoMergeable: a function of the module under test (not harness code) that returns something.
func (ex *Exec) autoMergeable(fn *ssa.Function) bool {
	if fn.Signature.Results().Len() == 0 || fn.Blocks == nil {
		return false
	}
	if !strings.HasPrefix(fnPkgPath(fn), "github.com/google/go-tdx-guest") || strings.Contains(fnPkgPath(fn), "/zzvp") {
		return false
	}
	file := ex.eng.Fset.Position(fn.Pos()).Filename
	return !strings.Contains(file, "zz_verif_")
}

type mergedOut struct {
	cond *smt.Term
	res  Value
}

func (ex *Exec) callMerged(fn *ssa.Function, args []Value, env []Value, site ssa.Instruction) Value {
	tb := ex.tb()
	ex.eng.rep.MergedCalls++
	savedPC := append([]*smt.Term(nil), ex.pc...)
	savedSet := ex.pcSet
	savedTr := ex.tr
	savedFrames := len(ex.frames)
	savedPinned := ex.pinned
	savedFacts, savedSubst, savedInt := ex.facts, ex.subst, ex.intFacts
	savedRC, savedUB := ex.readCache, ex.ubCache
	defer func() { ex.readCache, ex.ubCache = savedRC, savedUB }()
	savedSync := ex.syncDepth
	mark := ex.objSeq
	var outs []mergedOut
	dropped := 0
	assumed := false
	work := [][]int64{nil}
	restore := func() {
		ex.pc = append([]*smt.Term(nil), savedPC...)
		ex.pcSet = make(map[int]bool, len(savedSet))
		for k := range savedSet {
			ex.pcSet[k] = true
		}
		ex.pinned = make(map[int]int, len(savedPinned))
		for k, v := range savedPinned {
			ex.pinned[k] = v
		}
		ex.frames = ex.frames[:savedFrames]
		ex.facts = make(map[int]ival, len(savedFacts))
		for k, v := range savedFacts {
			ex.facts[k] = v
		}
		ex.subst = make(map[int]*smt.Term, len(savedSubst))
		for k, v := range savedSubst {
			ex.subst[k] = v
		}
		ex.intFacts = make(map[string]ival, len(savedInt))
		for k, v := range savedInt {
			ex.intFacts[k] = v
		}
		ex.ivalMemo, ex.nzMemo = nil, nil
		if ex.syncDepth != savedSync {
			// a sub-path ended inside a synchronised region
			ex.syncDepth = savedSync
			ex.setSoftFrozen(savedSync == 0)
		}
		ex.readCache = &readCache{m: map[[2]int]*smt.Term{}, up: savedRC}
		ex.ubCache = make(map[int]int, len(savedUB))
		for k, v := range savedUB {
			ex.ubCache[k] = v
		}
	}
	npaths := 0
	impure := false
	auto := false
	defer func() {
		if auto {
			ex.autoMerge--
		}
		if npaths > ex.eng.rep.MaxMergedPaths {
			ex.eng.rep.MaxMergedPaths = npaths
		}
	}()
	markDepth := len(ex.mergeMarks)
	for len(work) > 0 {
		p := work[len(work)-1]
		work = work[:len(work)-1]
		npaths++
		if npaths > mergePathLimit && !auto && ex.autoMerge == 0 {
			// too many paths: start again, merging the module's functions called below
			// this one as well (helpers the merge list does not name)
			auto = true
			ex.autoMerge++
			ex.eng.noteOnce("merge list: " + fn.String() + " exceeds " + itoa(mergePathLimit) + " paths; re-run with the module functions it calls merged as well")
			outs, dropped, assumed, npaths = nil, 0, false, 1
			work = nil
			p = nil
		}
		if npaths > 4*mergePathLimit {
			ex.tr = savedTr
			ex.fail("merged call %s has more than %d paths", fn, 4*mergePathLimit)
		}
		restore()
		ex.tr = &traceCtx{prefix: p}
		ex.mergeMarks = append(ex.mergeMarks, mark)
		var res Value
		ended := false
		func() {
			defer func() {
				if r := recover(); r != nil {
					if _, imp := r.(mergeImpure); imp && len(ex.mergeMarks) == 1+markDepth {
						impure = true
						return
					}
					pe, ok := r.(pathEnd)
					if !ok || pe.kind == endAbort || pe.kind == endExit {
						ex.mergeMarks = ex.mergeMarks[:len(ex.mergeMarks)-1]
						ex.tr = savedTr
						panic(r)
					}
					ended = true
				}
			}()
			res = ex.callFunc(fn, args, env, site)
		}()
		ex.mergeMarks = ex.mergeMarks[:len(ex.mergeMarks)-1]
		if impure {
			// not a pure function after all: run it as an ordinary (forking) call from the saved state
			restore()
			ex.pcSet = savedSet
			ex.pinned = savedPinned
			ex.facts, ex.subst, ex.intFacts = savedFacts, savedSubst, savedInt
			ex.ivalMemo, ex.nzMemo = nil, nil
			ex.tr = savedTr
			ex.eng.noteImpure(fn.String())
			return ex.callFunc(fn, args, env, site)
		}
		work = append(work, ex.tr.forks...)
		if ex.tr.assumed {
			assumed = true
		}
		if ended {
			dropped++
			continue
		}
		outs = append(outs, mergedOut{cond: tb.And(ex.pc[len(savedPC):]...), res: res})
	}
	restore()
	ex.pcSet = savedSet
	ex.pinned = savedPinned
	ex.facts, ex.subst, ex.intFacts = savedFacts, savedSubst, savedInt
	ex.ivalMemo, ex.nzMemo = nil, nil
	ex.tr = savedTr
	if len(outs) == 0 {
		panic(pathEnd{kind: endPanic, msg: "all paths of merged callee end abnormally"})
	}
	if dropped > 0 || assumed {
		var cs []*smt.Term
		for _, o := range outs {
			cs = append(cs, o.cond)
		}
		ex.addPC(tb.Or(cs...))
		ex.tr.assumed = true
	}
	if len(outs) == 1 {
		return outs[0].res
	}
	return ex.mergeValues(outs, fn)
}

func (ex *Exec) mergeValues(outs []mergedOut, fn *ssa.Function) Value {
	tb := ex.tb()
	switch first := outs[0].res.(type) {
	case nil:
		return nil
	case Tuple:
		res := make(Tuple, len(first))
		for i := range first {
			sub := make([]mergedOut, len(outs))
			for j, o := range outs {
				sub[j] = mergedOut{cond: o.cond, res: o.res.(Tuple)[i]}
			}
			res[i] = ex.mergeValues(sub, fn)
		}
		return res
	case *smt.Term:
		r := first
		for _, o := range outs[1:] {
			r = tb.Ite(o.cond, o.res.(*smt.Term), r)
		}
		// the first alternative is the default; that is right because the conditions are exhaustive
		return r
	case *Iface:
		same := true
		for _, o := range outs[1:] {
			if o.res.(*Iface) != first {
				same = false
			}
		}
		if same {
			return first
		}
		// merged error value: nil iff the path that ran returned nil
		nilC := ex.ifaceNil(first)
		var typ types.Type
		if first != nil {
			typ = first.Typ
		}
		for _, o := range outs[1:] {
			iv := o.res.(*Iface)
			nilC = tb.Ite(o.cond, ex.ifaceNil(iv), nilC)
			if iv != nil && typ == nil {
				typ = iv.Typ
			}
		}
		if nilC.IsTrue() {
			return (*Iface)(nil)
		}
		if typ == nil {
			return (*Iface)(nil)
		}
		// the dynamic value of a merged error is opaque
		ov := ex.opaqueError("merged error of " + fn.Name())
		if nilC.IsFalse() {
			return ov
		}
		return &Iface{Typ: ov.Typ, V: ov.V, NilC: nilC}
	}
	// any other kind must be identical on all paths
	for _, o := range outs[1:] {
		if !ex.sameValue(o.res, outs[0].res) {
			ex.fail("merged callee %s returns differing values of kind %T", fn, outs[0].res)
		}
	}
	return outs[0].res
}

func (ex *Exec) sameValue(a, b Value) bool {
	switch x := a.(type) {
	case Ptr:
		y, ok := b.(Ptr)
		return ok && x.Obj == y.Obj && fmt.Sprint(x.Path) == fmt.Sprint(y.Path)
	case Bytes:
		y, ok := b.(Bytes)
		return ok && x.BO == y.BO && x.Off == y.Off && x.Len == y.Len
	case *Str:
		y, ok := b.(*Str)
		return ok && x.K == strConc && y.K == strConc && x.C == y.C
	case *GSlice:
		y, ok := b.(*GSlice)
		return ok && x.IsNil() && y.IsNil()
	}
	return false
}

// ---- builtins ----

func (ex *Exec) builtin(name string, args []Value, c *ssa.CallCommon, site ssa.Instruction) Value {
	tb := ex.tb()
	switch name {
	case "len":
		switch a := args[0].(type) {
		case Bytes:
			return a.lenOrZero(ex)
		case *GSlice:
			if a.IsNil() {
				return ex.c64(0)
			}
			return ex.c64(uint64(a.Len))
		case *Str:
			return ex.strLen(a)
		case *Map:
			if a == nil {
				return ex.c64(0)
			}
			return ex.c64(uint64(len(a.M)))
		case ByteArr:
			return a.BO.Cap
		case *GArr:
			return ex.c64(uint64(len(a.Vec.Elems)))
		case Ptr:
			if c != nil {
				if pt, ok := c.Args[0].Type().Underlying().(*types.Pointer); ok {
					if at, ok := pt.Elem().Underlying().(*types.Array); ok {
						return ex.c64(uint64(at.Len()))
					}
				}
			}
		}
	case "cap":
		switch a := args[0].(type) {
		case Bytes:
			if a.BO == nil {
				return ex.c64(0)
			}
			return a.Cap
		case *GSlice:
			if a.IsNil() {
				return ex.c64(0)
			}
			return ex.c64(uint64(a.Cap))
		case ByteArr:
			return a.BO.Cap
		}
	case "append":
		return ex.appendBuiltin(args[0], args[1], c)
	case "copy":
		return ex.copyBuiltin(args[0], args[1])
	case "delete":
		m := args[0].(*Map)
		if m != nil {
			ex.checkWritable(m.Frozen, m.ID, "map delete")
			delete(m.M, ex.mapKey(args[1]))
		}
		return nil
	case "print", "println":
		return nil
	case "recover":
		return (*Iface)(nil)
	case "min", "max":
		r := ex.term(args[0])
		_, signed, _ := typeWidth(c.Args[0].Type())
		for _, a := range args[1:] {
			b := ex.term(a)
			var lt *smt.Term
			if signed {
				lt = tb.Slt(b, r)
			} else {
				lt = tb.Ult(b, r)
			}
			if name == "max" {
				lt = tb.Not(tb.Or(lt, tb.Eq(b, r)))
			}
			r = tb.Ite(lt, b, r)
		}
		return r
	}
	ex.fail("unsupported builtin %s on %T", name, args[0])
	return nil
}

func (ex *Exec) appendBuiltin(s, t Value, c *ssa.CallCommon) Value {
	tb := ex.tb()
	switch a := s.(type) {
	case Bytes:
		var src *logNode
		var srcOff, n *smt.Term
		switch b := t.(type) {
		case Bytes:
			if b.BO == nil {
				return a
			}
			src, srcOff, n = b.BO.snapshot(), b.Off, b.Len
		case *Str:
			sq := ex.strAsSeq(b)
			src, srcOff, n = sq.Snap, sq.Off, sq.Len
		default:
			ex.fail("append of %T to []byte", t)
		}
		if n.IsConst() && n.Uint64() == 0 {
			return a
		}
		if a.BO == nil {
			// append(nil, t...) : nil result iff t is empty
			if ex.branch(tb.Eq(n, ex.c64(0)), nil) {
				return a
			}
			bo := ex.newByteObjZero(n)
			ex.bulkCopy(bo, ex.c64(0), src, srcOff, n)
			if bb, isB := t.(Bytes); isB && whole(bb) {
				bo.Ghost = bb.BO.Ghost // an exact copy of a whole blob is the same blob to the library models
			}
			return Bytes{BO: bo, Off: ex.c64(0), Len: n, Cap: n}
		}
		newLen := tb.Add(a.Len, n)
		fits := tb.Ule(newLen, a.Cap)
		if ex.branch(fits, nil) {
			// in place: writes into the shared backing store
			ex.writeRange(a.BO, tb.Add(a.Off, a.Len), src, srcOff, n, "append in place")
			return Bytes{BO: a.BO, Off: a.Off, Len: newLen, Cap: a.Cap}
		}
		bo := ex.newByteObjZero(newLen)
		ex.bulkCopy(bo, ex.c64(0), a.BO.snapshot(), a.Off, a.Len)
		ex.bulkCopy(bo, a.Len, src, srcOff, n)
		if bb, isB := t.(Bytes); isB && whole(bb) && a.Len.IsConst() && a.Len.Uint64() == 0 {
			bo.Ghost = bb.BO.Ghost // append([]byte{}, b...) / bytes.Clone(b)
		}
		return Bytes{BO: bo, Off: ex.c64(0), Len: newLen, Cap: newLen}
	case *GSlice:
		b, _ := t.(*GSlice)
		if b.IsNil() || b.Len == 0 {
			return a
		}
		var elemT types.Type
		if c != nil {
			elemT = c.Args[0].Type().Underlying().(*types.Slice).Elem()
		}
		if a.IsNil() {
			ex.objSeq++
			v := &Vec{ID: ex.objSeq}
			for i := 0; i < b.Len; i++ {
				v.Elems = append(v.Elems, ex.newObj(elemT, ex.copyOut(b.Vec.Elems[b.Off+i].V)))
			}
			nc := ex.grownCap(0, 0, b.Len, elemT)
			for i := b.Len; i < nc; i++ {
				v.Elems = append(v.Elems, ex.newObj(elemT, ex.zero(elemT)))
			}
			return &GSlice{Vec: v, Len: b.Len, Cap: nc}
		}
		if a.Len+b.Len <= a.Cap {
			ex.checkWritable(a.Vec.Frozen, a.Vec.ID, "append in place to slice")
			for i := 0; i < b.Len; i++ {
				o := a.Vec.Elems[a.Off+a.Len+i]
				ex.checkWritable(o.Frozen, o.ID, "append in place to slice")
				o.V = ex.copyOut(b.Vec.Elems[b.Off+i].V)
			}
			return &GSlice{Vec: a.Vec, Off: a.Off, Len: a.Len + b.Len, Cap: a.Cap}
		}
		ex.objSeq++
		v := &Vec{ID: ex.objSeq}
		for i := 0; i < a.Len; i++ {
			v.Elems = append(v.Elems, ex.newObj(elemT, a.Vec.Elems[a.Off+i].V))
		}
		for i := 0; i < b.Len; i++ {
			v.Elems = append(v.Elems, ex.newObj(elemT, ex.copyOut(b.Vec.Elems[b.Off+i].V)))
		}
		n := a.Len + b.Len
		nc := ex.grownCap(a.Len, a.Cap, b.Len, elemT)
		for i := n; i < nc; i++ {
			v.Elems = append(v.Elems, ex.newObj(elemT, ex.zero(elemT)))
		}
		return &GSlice{Vec: v, Len: n, Cap: nc}
	}
	ex.fail("append on %T", s)
	return nil
}

func (ex *Exec) copyBuiltin(d, s Value) Value {
	tb := ex.tb()
	switch a := d.(type) {
	case Bytes:
		var src *logNode
		var srcOff, n *smt.Term
		switch b := s.(type) {
		case Bytes:
			if b.BO == nil {
				return ex.c64(0)
			}
			src, srcOff, n = b.BO.snapshot(), b.Off, b.Len
		case *Str:
			sq := ex.strAsSeq(b)
			src, srcOff, n = sq.Snap, sq.Off, sq.Len
		default:
			ex.fail("copy from %T", s)
		}
		if a.BO == nil {
			return ex.c64(0)
		}
		cnt := tb.Ite(tb.Ult(a.Len, n), a.Len, n)
		ex.writeRange(a.BO, a.Off, src, srcOff, cnt, "copy")
		return cnt
	case *GSlice:
		b, _ := s.(*GSlice)
		if a.IsNil() || b.IsNil() {
			return ex.c64(0)
		}
		n := a.Len
		if b.Len < n {
			n = b.Len
		}
		vals := make([]Value, n)
		for i := 0; i < n; i++ {
			vals[i] = b.Vec.Elems[b.Off+i].V
		}
		for i := 0; i < n; i++ {
			o := a.Vec.Elems[a.Off+i]
			ex.checkWritable(o.Frozen || a.Vec.Frozen, o.ID, "copy into slice")
			o.V = ex.copyOut(vals[i])
		}
		return ex.c64(uint64(n))
	}
	ex.fail("copy into %T", d)
	return nil
}

// ---- channels / select (model time) ----

func (ex *Exec) chanRecv(x Value, commaOk bool) Value {
	ex.fail("channel receive outside select is not supported")
	return nil
}

func (ex *Exec) selectInstr(f *frame, ins *ssa.Select) Value {
	tb := ex.tb()
	if !ins.Blocking {
		ex.fail("non-blocking select is not supported")
	}
	// every state is a receive on a model channel with a fire time.
	var chans []*Chan
	for _, st := range ins.States {
		if st.Dir != types.RecvOnly {
			ex.fail("select send is not supported")
		}
		c, _ := ex.get(f, st.Chan).(*Chan)
		chans = append(chans, c)
	}
	if ex.clock == nil {
		ex.clock = tb.ConstI(0, 64)
	}
	// effective ready time of every channel (a channel that fired in the past is ready now);
	// decided by branching so that the terms along one path stay simple
	best := -1
	var bestT *smt.Term
	for i, c := range chans {
		if c == nil || c.FireAt == nil {
			continue
		}
		eff := c.FireAt
		if ex.branch(tb.Slt(eff, ex.clock), ins) {
			eff = ex.clock
		}
		if best < 0 {
			best, bestT = i, eff
			continue
		}
		if ex.branch(tb.Slt(eff, bestT), ins) {
			best, bestT = i, eff
		} else if ex.branch(tb.Eq(eff, bestT), ins) {
			// both ready at the same instant: Go picks at random
			pick := tb.Sym(ex.freshName("select_pick"), smt.BoolSort)
			if ex.branch(pick, ins) {
				best, bestT = i, eff
			}
		}
	}
	if best < 0 {
		ex.oblige("deadlock", "", tb.True(), "select blocks forever")
		panic(pathEnd{kind: endPanic})
	}
	ex.clock = bestT
	res := Tuple{ex.c64(uint64(best)), tb.True()}
	for _, st := range ins.States {
		if st.Dir == types.RecvOnly {
			res = append(res, ex.zero(st.Chan.Type().Underlying().(*types.Chan).Elem()))
		}
	}
	return res
}

// grownCap: the capacity the gc runtime gives a slice that append has to re-allocate (a later
// append may then write in place into memory shared with an earlier result: the engine has to
// see that). Obtained from the runtime itself, for an element type of the same size and kind.
var grownCapMemo sync.Map

func (ex *Exec) grownCap(oldLen, oldCap, add int, elemT types.Type) int {
	need := oldLen + add
	if elemT == nil {
		return need
	}
	sizes := types.SizesFor("gc", "amd64")
	es := sizes.Sizeof(elemT)
	if es <= 0 || es > 4096 || need > 1<<16 {
		return need
	}
	ptrs := typeHasPointers(elemT)
	key := [5]int64{int64(oldLen), int64(oldCap), int64(add), es, 0}
	if ptrs {
		key[4] = 1
	}
	if v, ok := grownCapMemo.Load(key); ok {
		return v.(int)
	}
	var et reflect.Type
	if ptrs && es%8 == 0 {
		et = reflect.ArrayOf(int(es/8), reflect.TypeOf((*byte)(nil)))
	} else {
		et = reflect.ArrayOf(int(es), reflect.TypeOf(byte(0)))
	}
	st := reflect.SliceOf(et)
	var old reflect.Value
	if oldCap == 0 {
		old = reflect.Zero(st)
	} else {
		old = reflect.MakeSlice(st, oldLen, oldCap)
	}
	res := reflect.AppendSlice(old, reflect.MakeSlice(st, add, add)).Cap()
	if res < need {
		res = need
	}
	grownCapMemo.Store(key, res)
	return res
}

func typeHasPointers(t types.Type) bool {
	switch u := t.Underlying().(type) {
	case *types.Basic:
		return u.Kind() == types.String || u.Kind() == types.UnsafePointer
	case *types.Array:
		return typeHasPointers(u.Elem())
	case *types.Struct:
		for i := 0; i < u.NumFields(); i++ {
			if typeHasPointers(u.Field(i).Type()) {
				return true
			}
		}
		return false
	}
	return true
}
