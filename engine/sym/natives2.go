package sym

import (
	"bytes"
	"fmt"
	"go/types"
	"math/big"
	"strings"

	"gosym/smt"

	"golang.org/x/tools/go/ssa"
)

// More library surface executed natively so that a change that starts using a
// common pure function does not make a check inconclusive: hash objects,
// sync.Map / sync.Once, internal/bytealg primitives, integer formatting.

func registerNatives2(e *Engine) {
	n := e.Natives

	// ---- hash.Hash objects (SHA-256 / SHA-384 / SHA-512 as uninterpreted functions of the written bytes) ----
	hashNew := func(pkg, typ, ufName string, size int) NativeFn {
		return func(ex *Exec, site ssa.Instruction, args []Value) Value {
			p := ex.eng.Prog.ImportedPackage(pkg)
			if p == nil || p.Type(typ) == nil {
				ex.fail("hash model: type %s.%s is not loaded", pkg, typ)
			}
			t := p.Type(typ).Type()
			o := ex.newObj(t, ex.zero(t))
			o.Name = ufName + " state"
			o.Ghost = map[string]Value{"hash-uf": ex.concStr(ufName), "hash-size": ex.c64(uint64(size)), "hash-data": Bytes{}}
			return &Iface{Typ: types.NewPointer(t), V: Ptr{Obj: o}}
		}
	}
	n["crypto/sha256.New"] = hashNew("crypto/sha256", "digest", "SHA256", 32)
	n["crypto/sha512.New384"] = hashNew("crypto/sha512", "digest", "SHA384", 48)
	n["crypto/sha512.New"] = hashNew("crypto/sha512", "digest", "SHA512", 64)
	n["(crypto.Hash).New"] = func(ex *Exec, site ssa.Instruction, args []Value) Value {
		h := ex.concretize(ex.term(args[0]), 24, "crypto.Hash value")
		switch h {
		case 5:
			return n["crypto/sha256.New"](ex, site, nil)
		case 6:
			return n["crypto/sha512.New384"](ex, site, nil)
		case 7:
			return n["crypto/sha512.New"](ex, site, nil)
		}
		// any other registered algorithm: a model hash of its own (same shape, own function symbols)
		sizes := map[int64]int{1: 16, 2: 16, 3: 20, 4: 28, 8: 36, 9: 20, 10: 28, 11: 32, 12: 48, 13: 64, 14: 28, 15: 32, 16: 32, 17: 32, 18: 48, 19: 64}
		sz, ok := sizes[h]
		if !ok {
			ex.oblige("panic", "", ex.tb().True(), "crypto: requested hash function is unavailable")
			panic(pathEnd{kind: endPanic})
		}
		return hashNew("crypto/sha512", "digest", "HASH"+itoa(int(h)), sz)(ex, site, nil)
	}
	hobj := func(ex *Exec, v Value) *Obj {
		p, ok := v.(Ptr)
		if !ok || p.Obj == nil || p.Obj.Ghost == nil || p.Obj.Ghost["hash-uf"] == nil {
			ex.fail("hash method on an object that was not created by a modelled constructor")
		}
		return p.Obj
	}
	for _, recv := range []string{"(*crypto/sha256.digest)", "(*crypto/sha512.digest)"} {
		n[recv+".Write"] = func(ex *Exec, site ssa.Instruction, args []Value) Value {
			o := hobj(ex, args[0])
			o.Ghost["hash-data"] = ex.appendBuiltin(o.Ghost["hash-data"], args[1], nil)
			b, _ := args[1].(Bytes)
			return Tuple{b.lenOrZero(ex), (*Iface)(nil)}
		}
		n[recv+".Sum"] = func(ex *Exec, site ssa.Instruction, args []Value) Value {
			o := hobj(ex, args[0])
			size := int(o.Ghost["hash-size"].(*smt.Term).Int64())
			digest := ex.hashUF(o.Ghost["hash-uf"].(*Str).C, size, o.Ghost["hash-data"].(Bytes))
			return ex.appendBuiltin(args[1], digest, nil)
		}
		n[recv+".Reset"] = func(ex *Exec, site ssa.Instruction, args []Value) Value {
			hobj(ex, args[0]).Ghost["hash-data"] = Bytes{}
			return nil
		}
		n[recv+".Size"] = func(ex *Exec, site ssa.Instruction, args []Value) Value {
			return hobj(ex, args[0]).Ghost["hash-size"]
		}
		n[recv+".BlockSize"] = func(ex *Exec, site ssa.Instruction, args []Value) Value { return ex.c64(64) }
	}
	n["crypto/sha256.Sum256"] = func(ex *Exec, site ssa.Instruction, args []Value) Value {
		d := ex.hashUF("SHA256", 32, args[0].(Bytes))
		return ByteArr{BO: d.BO}
	}
	n["crypto/sha512.Sum384"] = func(ex *Exec, site ssa.Instruction, args []Value) Value {
		d := ex.hashUF("SHA384", 48, args[0].(Bytes))
		return ByteArr{BO: d.BO}
	}

	// ---- strings.Builder: the accumulated bytes are ghost state of the builder ----
	sbBytes := func(ex *Exec, v Value) (*Obj, Bytes) {
		p, ok := v.(Ptr)
		if !ok || p.Obj == nil {
			ex.nilDeref("strings.Builder method on nil pointer")
		}
		if p.Obj.Ghost == nil {
			p.Obj.Ghost = map[string]Value{}
		}
		b, _ := p.Obj.Ghost["builder"].(Bytes)
		return p.Obj, b
	}
	n["(*strings.Builder).WriteString"] = func(ex *Exec, site ssa.Instruction, args []Value) Value {
		o, b := sbBytes(ex, args[0])
		o.Ghost["builder"] = ex.appendBuiltin(b, args[1], nil)
		return Tuple{ex.strLen(args[1].(*Str)), (*Iface)(nil)}
	}
	n["(*strings.Builder).Write"] = func(ex *Exec, site ssa.Instruction, args []Value) Value {
		o, b := sbBytes(ex, args[0])
		o.Ghost["builder"] = ex.appendBuiltin(b, args[1], nil)
		return Tuple{args[1].(Bytes).lenOrZero(ex), (*Iface)(nil)}
	}
	n["(*strings.Builder).WriteByte"] = func(ex *Exec, site ssa.Instruction, args []Value) Value {
		o, b := sbBytes(ex, args[0])
		one := ex.newByteObjZero(ex.c64(1))
		ex.storeByte(one, ex.c64(0), ex.term(args[1]))
		o.Ghost["builder"] = ex.appendBuiltin(b, Bytes{BO: one, Off: ex.c64(0), Len: ex.c64(1), Cap: ex.c64(1)}, nil)
		return (*Iface)(nil)
	}
	n["(*strings.Builder).String"] = func(ex *Exec, site ssa.Instruction, args []Value) Value {
		_, b := sbBytes(ex, args[0])
		return ex.bytesToStr(b)
	}
	n["(*strings.Builder).Len"] = func(ex *Exec, site ssa.Instruction, args []Value) Value {
		_, b := sbBytes(ex, args[0])
		return b.lenOrZero(ex)
	}
	n["(*strings.Builder).Reset"] = func(ex *Exec, site ssa.Instruction, args []Value) Value {
		o, _ := sbBytes(ex, args[0])
		o.Ghost["builder"] = Bytes{}
		return nil
	}
	n["(*strings.Builder).Grow"] = func(ex *Exec, site ssa.Instruction, args []Value) Value { return nil }

	// ---- sync/atomic on integers (single-threaded execution) ----
	for _, ty := range []string{"Int32", "Int64", "Uint32", "Uint64", "Uintptr"} {
		n["sync/atomic.Load"+ty] = func(ex *Exec, site ssa.Instruction, args []Value) Value { return ex.load(args[0]) }
		n["sync/atomic.Store"+ty] = func(ex *Exec, site ssa.Instruction, args []Value) Value {
			ex.store(args[0], args[1])
			return nil
		}
		n["sync/atomic.Add"+ty] = func(ex *Exec, site ssa.Instruction, args []Value) Value {
			v := ex.tb().Add(ex.term(ex.load(args[0])), ex.term(args[1]))
			ex.store(args[0], v)
			return v
		}
		n["sync/atomic.Swap"+ty] = func(ex *Exec, site ssa.Instruction, args []Value) Value {
			old := ex.load(args[0])
			ex.store(args[0], args[1])
			return old
		}
		n["sync/atomic.CompareAndSwap"+ty] = func(ex *Exec, site ssa.Instruction, args []Value) Value {
			if ex.branch(ex.tb().Eq(ex.term(ex.load(args[0])), ex.term(args[1])), nil) {
				ex.store(args[0], args[2])
				return ex.tb().True()
			}
			return ex.tb().False()
		}
	}

	// ---- sort.Slice / sort.SliceStable on slices of concrete length: stable insertion sort, the
	// comparison function is the caller's (symbolic comparisons fork) ----
	sortSlice := func(ex *Exec, site ssa.Instruction, args []Value) Value {
		iv, _ := args[0].(*Iface)
		if iv == nil {
			return nil
		}
		g, ok := iv.V.(*GSlice)
		if !ok {
			ex.fail("sort.Slice of %T", iv.V)
		}
		less, ok := args[1].(*Func)
		if !ok || less == nil {
			ex.nilDeref("sort.Slice with nil less")
		}
		if g.IsNil() || g.Len < 2 {
			return nil
		}
		if g.Len > 32 {
			ex.fail("sort.Slice of %d elements", g.Len)
		}
		ex.checkWritable(g.Vec.Frozen, g.Vec.ID, "sort.Slice")
		lt := func(i, j int) bool {
			r := ex.invoke(less, []Value{ex.tb().ConstI(int64(i), 64), ex.tb().ConstI(int64(j), 64)}, site)
			return ex.branch(ex.term(r), nil)
		}
		for i := 1; i < g.Len; i++ {
			for j := i; j > 0 && lt(j, j-1); j-- {
				a, b := g.Vec.Elems[g.Off+j], g.Vec.Elems[g.Off+j-1]
				a.V, b.V = b.V, a.V
			}
		}
		return nil
	}
	n["sort.Slice"], n["sort.SliceStable"] = sortSlice, sortSlice

	// ---- crypto/x509.CertPool as a bare container (harness groups that verify chains model it in Go) ----
	n["crypto/x509.NewCertPool"] = func(ex *Exec, site ssa.Instruction, args []Value) Value {
		p := ex.eng.Prog.ImportedPackage("crypto/x509")
		if p == nil || p.Type("CertPool") == nil {
			ex.fail("crypto/x509 is not loaded")
		}
		t := p.Type("CertPool").Type()
		return Ptr{Obj: ex.newObj(t, ex.zero(t))}
	}
	n["(*crypto/x509.CertPool).AddCert"] = func(ex *Exec, site ssa.Instruction, args []Value) Value {
		p, ok := args[0].(Ptr)
		if !ok || p.Obj == nil {
			ex.nilDeref("AddCert on nil pool")
		}
		if p.Obj.Ghost == nil {
			p.Obj.Ghost = map[string]Value{}
		}
		k := 0
		for ; p.Obj.Ghost["cert"+itoa(k)] != nil; k++ {
		}
		p.Obj.Ghost["cert"+itoa(k)] = args[1]
		return nil
	}

	// ---- calls made by package initialisers of the library packages that are executed ----
	n["internal/godebug.New"] = func(ex *Exec, site ssa.Instruction, args []Value) Value { return Ptr{} }
	n["time.runtimeNano"] = func(ex *Exec, site ssa.Instruction, args []Value) Value { return ex.tb().ConstI(1, 64) }
	n["runtime.GOROOT"] = func(ex *Exec, site ssa.Instruction, args []Value) Value { return ex.concStr("/goroot") }

	// ---- sync.Once, sync.Map (single-threaded execution) ----
	n["(*sync.Once).Do"] = func(ex *Exec, site ssa.Instruction, args []Value) Value {
		p := args[0].(Ptr)
		if p.Obj.Ghost == nil {
			p.Obj.Ghost = map[string]Value{}
		}
		if _, done := p.Obj.Ghost["once-done"]; !done {
			p.Obj.Ghost["once-done"] = ex.tb().True()
			ex.syncEnter()
			ex.invoke(args[1].(*Func), nil, site)
			ex.syncLeave()
		}
		return nil
	}
	type entry struct{ k, v Value }
	mapEntries := func(ex *Exec, v Value) *[]entry {
		p := v.(Ptr)
		if p.Obj == nil {
			ex.nilDeref("sync.Map method on nil")
		}
		ex.checkWritable(false, 0, "")
		if p.Obj.Ghost == nil {
			p.Obj.Ghost = map[string]Value{}
		}
		l, ok := p.Obj.Ghost["syncmap"].(*[]entry)
		if !ok {
			l = &[]entry{}
			p.Obj.Ghost["syncmap"] = l
		}
		return l
	}
	find := func(ex *Exec, l *[]entry, key Value) int {
		k, _ := key.(*Iface)
		for i, e := range *l {
			ek, _ := e.k.(*Iface)
			if ex.branch(ex.ifaceEq(ek, k), nil) {
				return i
			}
		}
		return -1
	}
	n["(*sync.Map).Load"] = func(ex *Exec, site ssa.Instruction, args []Value) Value {
		l := mapEntries(ex, args[0])
		if i := find(ex, l, args[1]); i >= 0 {
			return Tuple{(*l)[i].v, ex.tb().True()}
		}
		return Tuple{(*Iface)(nil), ex.tb().False()}
	}
	n["(*sync.Map).Store"] = func(ex *Exec, site ssa.Instruction, args []Value) Value {
		_ = args[0].(Ptr)
		// (sync.Map, sync.Pool: goroutine-safe by contract - not a write the frozen-memory check is about)
		l := mapEntries(ex, args[0])
		if i := find(ex, l, args[1]); i >= 0 {
			(*l)[i].v = args[2]
		} else {
			*l = append(*l, entry{args[1], args[2]})
		}
		return nil
	}
	n["(*sync.Map).LoadOrStore"] = func(ex *Exec, site ssa.Instruction, args []Value) Value {
		_ = args[0].(Ptr)
		l := mapEntries(ex, args[0])
		if i := find(ex, l, args[1]); i >= 0 {
			return Tuple{(*l)[i].v, ex.tb().True()}
		}
		*l = append(*l, entry{args[1], args[2]})
		return Tuple{args[2], ex.tb().False()}
	}
	n["(*sync.Map).Delete"] = func(ex *Exec, site ssa.Instruction, args []Value) Value {
		l := mapEntries(ex, args[0])
		if i := find(ex, l, args[1]); i >= 0 {
			*l = append((*l)[:i], (*l)[i+1:]...)
		}
		return nil
	}

	// sync.Pool: a LIFO of what was Put (a valid behaviour; the real pool may also drop items)
	n["(*sync.Pool).Get"] = func(ex *Exec, site ssa.Instruction, args []Value) Value {
		p := args[0].(Ptr)
		if p.Obj.Ghost == nil {
			p.Obj.Ghost = map[string]Value{}
		}
		l, _ := p.Obj.Ghost["pool"].(*[]Value)
		if l != nil && len(*l) > 0 {
			v := (*l)[len(*l)-1]
			*l = (*l)[:len(*l)-1]
			return v
		}
		newFn, _ := ex.loadPath(p.Obj, nil).(*Struct)
		if newFn != nil {
			if f, ok := newFn.F[len(newFn.F)-1].(*Func); ok && f != nil {
				return ex.invoke(f, nil, site)
			}
		}
		return (*Iface)(nil)
	}
	n["(*sync.Pool).Put"] = func(ex *Exec, site ssa.Instruction, args []Value) Value {
		p := args[0].(Ptr)
		if p.Obj.Ghost == nil {
			p.Obj.Ghost = map[string]Value{}
		}
		l, _ := p.Obj.Ghost["pool"].(*[]Value)
		if l == nil {
			l = &[]Value{}
			p.Obj.Ghost["pool"] = l
		}
		*l = append(*l, args[1])
		return nil
	}

	// ---- internal/bytealg (assembly in the real library) ----
	concBytes := func(ex *Exec, v Value) ([]byte, bool) {
		switch x := v.(type) {
		case Bytes:
			if x.BO == nil {
				return nil, true
			}
			s, ok := ex.bytesToStr(x).(*Str)
			if ok && s.K == strConc {
				return []byte(s.C), true
			}
		case *Str:
			if x.K == strConc {
				return []byte(x.C), true
			}
		}
		return nil, false
	}
	indexByte := func(ex *Exec, site ssa.Instruction, args []Value) Value {
		tb := ex.tb()
		c := ex.term(args[1])
		if b, ok := concBytes(ex, args[0]); ok && c.IsConst() {
			return tb.ConstI(int64(bytes.IndexByte(b, byte(c.Uint64()))), 64)
		}
		// symbolic content of fixed length: first position holding c, as a term
		var snap *logNode
		var off, ln *smt.Term
		switch x := args[0].(type) {
		case Bytes:
			if x.BO == nil {
				return tb.ConstI(-1, 64)
			}
			snap, off, ln = x.BO.head, x.Off, x.Len
		case *Str:
			sq := ex.strAsSeq(x)
			snap, off, ln = sq.Snap, sq.Off, sq.Len
		}
		nlen, ok := ex.pinnedLen(ln)
		if !ok || nlen > 4096 {
			ex.fail("IndexByte over a sequence of symbolic length")
		}
		res := tb.ConstI(-1, 64)
		for i := nlen - 1; i >= 0; i-- {
			res = tb.Ite(tb.Eq(ex.readNode(snap, tb.Add(off, ex.c64(uint64(i)))), c), ex.c64(uint64(i)), res)
		}
		return res
	}
	n["internal/bytealg.IndexByte"] = indexByte
	n["internal/bytealg.IndexByteString"] = indexByte
	conc2 := func(name string, f func(a, b []byte) int) NativeFn {
		return func(ex *Exec, site ssa.Instruction, args []Value) Value {
			a, ok1 := concBytes(ex, args[0])
			b, ok2 := concBytes(ex, args[1])
			if !ok1 || !ok2 {
				ex.fail("%s on symbolic data", name)
			}
			return ex.tb().ConstI(int64(f(a, b)), 64)
		}
	}
	n["internal/bytealg.Compare"] = func(ex *Exec, site ssa.Instruction, args []Value) Value {
		if a, ok1 := concBytes(ex, args[0]); ok1 {
			if b, ok2 := concBytes(ex, args[1]); ok2 {
				return ex.tb().ConstI(int64(bytes.Compare(a, b)), 64)
			}
		}
		return ex.seqCompare(args[0], args[1])
	}
	index2 := func(ex *Exec, site ssa.Instruction, args []Value) Value {
		if a, ok1 := concBytes(ex, args[0]); ok1 {
			if b, ok2 := concBytes(ex, args[1]); ok2 {
				return ex.tb().ConstI(int64(bytes.Index(a, b)), 64)
			}
		}
		return ex.seqIndex(args[0], args[1])
	}
	_ = conc2
	n["internal/bytealg.Index"] = index2
	n["internal/bytealg.IndexString"] = index2
	n["internal/bytealg.Count"] = func(ex *Exec, site ssa.Instruction, args []Value) Value {
		tb := ex.tb()
		c := ex.term(args[1])
		if a, ok := concBytes(ex, args[0]); ok && c.IsConst() {
			return tb.ConstI(int64(bytes.Count(a, []byte{byte(c.Uint64())})), 64)
		}
		snap, off, ln := ex.seqView(args[0])
		ub, ok := ex.upperBound(ln)
		if !ok {
			ex.fail("bytealg.Count on a sequence of unbounded symbolic length")
		}
		sum := ex.c64(0)
		for i := 0; i < ub; i++ {
			ci := ex.c64(uint64(i))
			hit := tb.And(tb.Ult(ci, ln), tb.Eq(ex.readNode(snap, tb.Add(off, ci)), c))
			sum = tb.Add(sum, tb.Ite(hit, ex.c64(1), ex.c64(0)))
		}
		return sum
	}
	// ASCII case mapping of symbolic text; text with a byte >= 0x80 maps to an unknown
	// (but for the same input the same) byte string
	caseMap := func(lower bool, str bool) NativeFn {
		return func(ex *Exec, site ssa.Instruction, args []Value) Value {
			tb := ex.tb()
			if a, ok := concBytes(ex, args[0]); ok {
				var out []byte
				if lower {
					out = bytes.ToLower(a)
				} else {
					out = bytes.ToUpper(a)
				}
				if str {
					if string(out) == string(a) {
						return args[0]
					}
					return ex.concStr(string(out))
				}
				return ex.bytesOfConst(out)
			}
			snap, off, ln := ex.seqView(args[0])
			ub, ok := ex.upperBound(ln)
			if !ok {
				ex.fail("case mapping of text of unbounded symbolic length")
			}
			var ascii []*smt.Term
			for i := 0; i < ub; i++ {
				ci := ex.c64(uint64(i))
				ascii = append(ascii, tb.Or(tb.Ule(ln, ci), tb.Ult(ex.readNode(snap, tb.Add(off, ci)), tb.Const(0x80, 8))))
			}
			var bo *ByteObj
			outLen := ln
			if ex.branch(tb.And(ascii...), nil) {
				bo = ex.newByteObjZero(ln)
				for i := 0; i < ub; i++ {
					ci := ex.c64(uint64(i))
					c := ex.readNode(snap, tb.Add(off, ci))
					var m *smt.Term
					if lower {
						m = ex.asciiFold(c)
					} else {
						isLow := tb.And(tb.Ule(tb.Const('a', 8), c), tb.Ule(c, tb.Const('z', 8)))
						m = tb.Ite(isLow, tb.Sub(c, tb.Const(32, 8)), c)
					}
					ex.storeByte(bo, ci, tb.Ite(tb.Ult(ci, ln), m, tb.Const(0, 8)))
				}
			} else {
				name := "casemap_" + itoa(snap.id) + "_" + itoa(off.ID) + "_" + itoa(ln.ID)
				if lower {
					name += "_lower"
				}
				outLen = tb.Sym(name+"#len", smt.BV(64))
				ex.addPC(tb.Ule(outLen, ex.c64(uint64(4*ub))))
				bo = ex.newByteObjSym(name, outLen)
			}
			if str {
				return &Str{K: strSeq, Snap: bo.snapshot(), Off: ex.c64(0), Len: outLen}
			}
			return Bytes{BO: bo, Off: ex.c64(0), Len: outLen, Cap: outLen}
		}
	}
	n["bytes.ToLower"], n["bytes.ToUpper"] = caseMap(true, false), caseMap(false, false)
	n["strings.ToLower"], n["strings.ToUpper"] = caseMap(true, true), caseMap(false, true)
	n["internal/bytealg.CountString"] = n["internal/bytealg.Count"]
	n["internal/bytealg.MakeNoZero"] = func(ex *Exec, site ssa.Instruction, args []Value) Value {
		nn := ex.term(args[0])
		bo := ex.newByteObjZero(nn)
		return Bytes{BO: bo, Off: ex.c64(0), Len: nn, Cap: nn}
	}
	n["internal/bytealg.Equal"] = func(ex *Exec, site ssa.Instruction, args []Value) Value {
		return ex.bytesEqual(args[0].(Bytes), args[1].(Bytes))
	}
	n["strings.Compare"] = func(ex *Exec, site ssa.Instruction, args []Value) Value {
		a, ok1 := concBytes(ex, args[0])
		b, ok2 := concBytes(ex, args[1])
		if !ok1 || !ok2 {
			ex.fail("strings.Compare on symbolic strings")
		}
		return ex.tb().ConstI(int64(bytes.Compare(a, b)), 64)
	}
	n["strings.Contains"] = func(ex *Exec, site ssa.Instruction, args []Value) Value {
		a, ok1 := concBytes(ex, args[0])
		b, ok2 := concBytes(ex, args[1])
		if !ok1 || !ok2 {
			ex.fail("strings.Contains on symbolic strings")
		}
		return ex.tb().Bool(strings.Contains(string(a), string(b)))
	}
	n["strconv.Itoa"] = func(ex *Exec, site ssa.Instruction, args []Value) Value {
		return ex.fmtInt(ex.term(args[0]), true, 10, 0, false)
	}
}

// hashUF applies the model of a hash function to a byte sequence. The model has
// the shape of the real thing: an initial state, one uninterpreted compression
// step per 32-byte block (bytes past the end of the message read as zero, blocks
// past the end are skipped) and an uninterpreted finalisation over the last
// state and the length. Equal messages therefore have equal digests whatever
// way they were assembled, for fixed and for symbolic (bounded) lengths alike;
// nothing else is known about the digests.
func (ex *Exec) hashUF(name string, size int, data Bytes) Bytes {
	tb := ex.tb()
	const block = 32
	stateS := smt.BV(128)
	lenT := ex.c64(0)
	ub := 0
	pinned := true
	if data.BO != nil {
		lenT = data.Len
		if n, ok := ex.pinnedLen(data.Len); ok {
			ub = n
			lenT = ex.c64(uint64(n))
		} else {
			pinned = false
			u, ok := ex.upperBound(data.Len)
			if !ok {
				ex.fail("hash of a byte sequence whose length is symbolic and not bounded by %d", ex.eng.Cfg.MaxSeqEq)
			}
			ub = u
		}
	}
	h := tb.UF(name+"_iv", stateS)
	for k := 0; k*block < ub; k++ {
		parts := make([]*smt.Term, block)
		for j := 0; j < block; j++ {
			i := k*block + j
			ci := ex.c64(uint64(i))
			switch {
			case i >= ub:
				parts[j] = tb.Const(0, 8)
			case pinned:
				parts[j] = ex.viewByte(data, ci)
			default:
				// no use of path facts here: the same message gives the same term at every site
				parts[j] = tb.Ite(tb.Ult(ci, lenT), ex.viewByte(data, ci), tb.Const(0, 8))
			}
		}
		stepped := tb.UF(name+"_block", stateS, h, tb.ConcatMany(parts))
		if pinned {
			h = stepped
		} else {
			h = tb.Ite(tb.Ult(ex.c64(uint64(k*block)), lenT), stepped, h)
		}
	}
	v := tb.UF(name+"_final", smt.BV(8*size), h, lenT)
	bo := ex.newByteObjZero(ex.c64(uint64(size)))
	for i := 0; i < size; i++ {
		ex.storeByte(bo, ex.c64(uint64(i)), tb.Extract(v, 8*(size-i)-1, 8*(size-i-1)))
	}
	return Bytes{BO: bo, Off: ex.c64(0), Len: ex.c64(uint64(size)), Cap: ex.c64(uint64(size))}
}

// seqCompare: lexicographic comparison (-1, 0, 1) of two byte sequences of bounded length.
func (ex *Exec) seqCompare(av, bv Value) *smt.Term {
	tb := ex.tb()
	view := func(v Value) (*logNode, *smt.Term, *smt.Term) {
		switch x := v.(type) {
		case Bytes:
			if x.BO == nil {
				return nil, ex.c64(0), ex.c64(0)
			}
			return x.BO.head, x.Off, x.Len
		case *Str:
			sq := ex.strAsSeq(x)
			return sq.Snap, sq.Off, sq.Len
		}
		ex.fail("comparison of %T", v)
		return nil, nil, nil
	}
	as, ao, al := view(av)
	bs, bo, bl := view(bv)
	ua, ok1 := ex.upperBound(al)
	ub, ok2 := ex.upperBound(bl)
	if !ok1 || !ok2 {
		ex.fail("bytes.Compare on sequences of unbounded symbolic length")
	}
	n := ua
	if ub < n {
		n = ub
	}
	neg, pos, zero := tb.ConstI(-1, 64), tb.ConstI(1, 64), tb.ConstI(0, 64)
	lencmp := tb.Ite(tb.Ult(al, bl), neg, tb.Ite(tb.Ult(bl, al), pos, zero))
	r := lencmp
	for i := n - 1; i >= 0; i-- {
		ci := ex.c64(uint64(i))
		x := ex.readNode(as, tb.Add(ao, ci))
		y := ex.readNode(bs, tb.Add(bo, ci))
		in := tb.And(tb.Ult(ci, al), tb.Ult(ci, bl))
		r = tb.Ite(in, tb.Ite(tb.Eq(x, y), r, tb.Ite(tb.Ult(x, y), neg, pos)), lencmp)
	}
	return r
}

// seqView: snapshot, offset and length of a byte slice or byte-sequence string.
func (ex *Exec) seqView(v Value) (*logNode, *smt.Term, *smt.Term) {
	switch x := v.(type) {
	case Bytes:
		if x.BO == nil {
			return ex.newByteObjZero(ex.c64(0)).head, ex.c64(0), ex.c64(0)
		}
		return x.BO.head, x.Off, x.Len
	case *Str:
		sq := ex.strAsSeq(x)
		return sq.Snap, sq.Off, sq.Len
	}
	ex.fail("byte view of %T", v)
	return nil, nil, nil
}

// seqIndex: index of the first occurrence of a needle of fixed length in a sequence of bounded length.
func (ex *Exec) seqIndex(hv, nv Value) *smt.Term {
	tb := ex.tb()
	hs, ho, hl := ex.seqView(hv)
	ns, no, nl := ex.seqView(nv)
	m, ok := ex.pinnedLen(nl)
	if !ok {
		ex.fail("bytes.Index with a needle of symbolic length")
	}
	n, ok := ex.upperBound(hl)
	if !ok {
		ex.fail("bytes.Index in a sequence of unbounded symbolic length")
	}
	if m == 0 {
		return ex.c64(0)
	}
	if n*m > 1<<16 {
		ex.fail("bytes.Index: %d x %d comparisons", n, m)
	}
	r := tb.ConstI(-1, 64)
	for i := n - m; i >= 0; i-- {
		conj := []*smt.Term{tb.Ule(ex.c64(uint64(i+m)), hl)}
		for j := 0; j < m; j++ {
			conj = append(conj, tb.Eq(ex.readNode(hs, tb.Add(ho, ex.c64(uint64(i+j)))), ex.readNode(ns, tb.Add(no, ex.c64(uint64(j))))))
		}
		r = tb.Ite(tb.And(conj...), ex.c64(uint64(i)), r)
	}
	return r
}

// quickFalse: the arithmetic layer alone refutes c under the path condition.
func (ex *Exec) quickFalse(c *smt.Term) bool {
	v, known := ex.quick(c)
	return known && !v
}

// fmtInt formats a (possibly symbolic) integer of at most 32 significant bits.
func (ex *Exec) fmtInt(t *smt.Term, signed bool, base int, minWidth int, zeroPad bool) Value {
	tb := ex.tb()
	if t.IsConst() {
		v := t.Int64()
		if !signed {
			return ex.concStr(padInt(new(big.Int).SetUint64(t.Uint64()).Text(base), minWidth, zeroPad))
		}
		return ex.concStr(padInt(big.NewInt(v).Text(base), minWidth, zeroPad))
	}
	iv := ex.ivalOf(t)
	if iv.hi.BitLen() > 32 {
		return ex.freshAtom("formatted integer")
	}
	// digits, least significant first
	w := t.S.W
	maxDigits := len(iv.hi.Text(base))
	digits := make([]*smt.Term, maxDigits)
	cur := t
	b := tb.Const(uint64(base), w)
	for k := 0; k < maxDigits; k++ {
		d := tb.Extract(tb.URem(cur, b), 7, 0)
		digits[k] = tb.Ite(tb.Ult(d, tb.Const(10, 8)), tb.Add(d, tb.Const('0', 8)), tb.Add(d, tb.Const('a'-10, 8)))
		cur = tb.UDiv(cur, b)
	}
	// number of significant digits (at least 1, at least minWidth when zero padded)
	nd := ex.c64(1)
	pow := big.NewInt(int64(base))
	for k := 1; k < maxDigits; k++ {
		nd = tb.Ite(tb.Ule(tb.ConstBig(pow, w), t), ex.c64(uint64(k+1)), nd)
		pow = new(big.Int).Mul(pow, big.NewInt(int64(base)))
	}
	if zeroPad && minWidth > 1 {
		nd = tb.Ite(tb.Ult(nd, ex.c64(uint64(minWidth))), ex.c64(uint64(minWidth)), nd)
		for len(digits) < minWidth {
			digits = append(digits, tb.Const('0', 8))
		}
	} else if minWidth > 1 {
		return ex.freshAtom("space padded integer")
	}
	total := len(digits)
	bo := ex.newByteObjZero(ex.c64(uint64(total)))
	for i := 0; i < total; i++ {
		// byte i of the output is digit (nd-1-i)
		val := tb.Const('0', 8)
		for k := 0; k < total; k++ {
			val = tb.Ite(tb.Eq(nd, ex.c64(uint64(k+1+i))), digits[k], val)
		}
		ex.storeByte(bo, ex.c64(uint64(i)), val)
	}
	return &Str{K: strSeq, Snap: bo.snapshot(), Off: ex.c64(0), Len: nd}
}

func padInt(s string, w int, zero bool) string {
	for len(s) < w {
		if zero {
			s = "0" + s
		} else {
			s = " " + s
		}
	}
	return s
}

var _ = fmt.Sprint
