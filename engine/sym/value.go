// Package sym is a path-forking symbolic executor for go/ssa programs.
package sym

import (
	"fmt"
	"go/types"

	"gosym/smt"

	"golang.org/x/tools/go/ssa"
)

// Value is one of:
//
//	*smt.Term  scalar (Bool or bit-vector)
//	Ptr        pointer to an object cell (or into one of its fields); nil if Obj==nil
//	BytePtr    pointer to one byte of a byte object
//	*Struct    struct value (immutable; updates copy)
//	ByteArr    [N]byte value (its own backing object)
//	Bytes      []byte-like slice view
//	*GSlice    any other slice
//	*GArr      any other array value
//	*Iface     interface value ((*Iface)(nil) is the nil interface)
//	*Str       string
//	*Map       map with concrete string/int keys
//	*Func      function value / closure
//	Tuple      multiple results
//	*Chan      model channel
type Value interface{}

type Obj struct {
	ID     int
	Typ    types.Type
	V      Value
	Frozen bool
	Ghost  map[string]Value
	Name   string
}

type Ptr struct {
	Obj  *Obj
	Path []int
	// Unsafe marks pointers that came through unsafe.Pointer (never dereferenced by the engine)
}

func (p Ptr) IsNil() bool { return p.Obj == nil }

// SelPtr is &a[i] for a symbolic i into an array or slice whose elements are scalars or
// strings: a load yields the case distinction over the elements, a store picks the element by forking.
type SelPtr struct {
	Elems []*Obj
	Idx   *smt.Term
}

type BytePtr struct {
	BO  *ByteObj
	Idx *smt.Term
}

type Struct struct {
	F []Value
}

type ByteArr struct {
	BO *ByteObj
}

type Bytes struct {
	BO            *ByteObj
	Off, Len, Cap *smt.Term
}

func (b Bytes) IsNil() bool { return b.BO == nil }

type Vec struct {
	ID     int
	Elems  []*Obj
	Frozen bool
}

type GSlice struct {
	Vec           *Vec
	Off, Len, Cap int
}

func (g *GSlice) IsNil() bool { return g == nil || g.Vec == nil }

type GArr struct {
	Vec *Vec
}

type Iface struct {
	Typ  types.Type
	V    Value
	NilC *smt.Term // non-nil: the interface is nil iff NilC (merged error values)
}

type Map struct {
	ID     int
	M      map[string]Value
	Keys   []string
	KeyStr bool
	Frozen bool
}

type Func struct {
	Fn      *ssa.Function
	Env     []Value
	Builtin *ssa.Builtin
	Native  string
	Recv    Value
	HasRecv bool
}

type Tuple []Value

type Chan struct {
	ID     int
	FireAt *smt.Term // model time (BV64 signed) at which the channel becomes ready; nil = never
	Kind   string
}

const (
	strConc = iota
	strSeq
	strAtom
)

// Str is a string value: concrete, a byte sequence with symbolic contents and
// length, or an opaque atom that supports only equality.
type Str struct {
	K     int
	C     string
	Snap  *logNode
	Off   *smt.Term
	Len   *smt.Term
	Atom  *smt.Term
	Ghost map[string]Value
}

func isByteType(t types.Type) bool {
	b, ok := t.Underlying().(*types.Basic)
	return ok && (b.Kind() == types.Uint8 || b.Kind() == types.Byte)
}

func isByteSlice(t types.Type) bool {
	s, ok := t.Underlying().(*types.Slice)
	return ok && isByteType(s.Elem())
}

func isByteArray(t types.Type) bool {
	a, ok := t.Underlying().(*types.Array)
	return ok && isByteType(a.Elem())
}

func typeWidth(t types.Type) (w int, signed bool, ok bool) {
	b, isB := t.Underlying().(*types.Basic)
	if !isB {
		if _, isP := t.Underlying().(*types.Pointer); isP {
			return 0, false, false
		}
		return 0, false, false
	}
	switch b.Kind() {
	case types.Int8:
		return 8, true, true
	case types.Int16:
		return 16, true, true
	case types.Int32:
		return 32, true, true
	case types.Int64, types.Int, types.UntypedInt, types.UntypedRune:
		return 64, true, true
	case types.Uint8:
		return 8, false, true
	case types.Uint16:
		return 16, false, true
	case types.Uint32:
		return 32, false, true
	case types.Uint64, types.Uint, types.Uintptr:
		return 64, false, true
	}
	return 0, false, false
}

func (v *Str) String() string {
	switch v.K {
	case strConc:
		return fmt.Sprintf("%q", v.C)
	case strSeq:
		return fmt.Sprintf("<seq len=%v>", v.Len)
	default:
		return fmt.Sprintf("<atom %v>", v.Atom)
	}
}

func (ex *Exec) widthOf(t types.Type) int {
	w, _, ok := typeWidth(t)
	if !ok {
		ex.fail("no bit width for type %s", t)
	}
	return w
}
