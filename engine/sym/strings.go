package sym

import (
	"gosym/smt"
)

func (ex *Exec) concStr(s string) *Str { return &Str{K: strConc, C: s} }

func (ex *Exec) strLen(s *Str) *smt.Term {
	switch s.K {
	case strConc:
		return ex.c64(uint64(len(s.C)))
	case strSeq:
		return s.Len
	}
	ex.fail("len of opaque string")
	return nil
}

// strAsSeq converts to sequence form (concrete strings get a constant log).
func (ex *Exec) strAsSeq(s *Str) *Str {
	switch s.K {
	case strSeq:
		return s
	case strConc:
		bo := ex.newByteObjConst([]byte(s.C))
		return &Str{K: strSeq, Snap: bo.snapshot(), Off: ex.c64(0), Len: ex.c64(uint64(len(s.C))), Ghost: s.Ghost}
	}
	ex.fail("byte access to opaque string")
	return nil
}

func (ex *Exec) strIndex(s *Str, i *smt.Term) Value {
	tb := ex.tb()
	if s.K == strConc {
		ex.boundsCheck(i, ex.c64(uint64(len(s.C))), "index of string")
		if i.IsConst() {
			return tb.Const(uint64(s.C[i.Uint64()]), 8)
		}
		// the hex digit tables have a closed form
		if (s.C == "0123456789abcdef" || s.C == "0123456789ABCDEF") {
			n := tb.Extract(i, 7, 0)
			alpha := byte('a')
			if s.C[10] == 'A' {
				alpha = 'A'
			}
			return tb.Ite(tb.Ult(n, tb.Const(10, 8)), tb.Add(n, tb.Const('0', 8)), tb.Add(n, tb.Const(uint64(alpha-10), 8)))
		}
		// symbolic index into a constant table
		res := tb.Const(0, 8)
		if len(s.C) > ex.eng.Cfg.MaxDenseIte {
			ex.fail("symbolic index into constant string of %d bytes", len(s.C))
		}
		for k := len(s.C) - 1; k >= 0; k-- {
			res = tb.Ite(tb.Eq(i, ex.c64(uint64(k))), tb.Const(uint64(s.C[k]), 8), res)
		}
		return res
	}
	sq := ex.strAsSeq(s)
	ex.boundsCheck(i, sq.Len, "index of string")
	return ex.readNode(sq.Snap, tb.Add(sq.Off, i))
}

func (ex *Exec) strSlice(s *Str, l, h *smt.Term) Value {
	tb := ex.tb()
	if s.K == strConc && l.IsConst() && h.IsConst() {
		return ex.concStr(s.C[l.Uint64():h.Uint64()])
	}
	sq := ex.strAsSeq(s)
	return &Str{K: strSeq, Snap: sq.Snap, Off: tb.Add(sq.Off, l), Len: tb.Sub(h, l)}
}

func (ex *Exec) strConcat(a, b *Str) Value {
	tb := ex.tb()
	if a.K == strConc && b.K == strConc {
		return ex.concStr(a.C + b.C)
	}
	if a.K == strConc && a.C == "" {
		return b
	}
	if b.K == strConc && b.C == "" {
		return a
	}
	if a.K == strAtom || b.K == strAtom {
		// opaque concatenation: a deterministic function of the operands
		return &Str{K: strAtom, Atom: tb.UF("str_concat", smt.BV(64), ex.strID(a), ex.strID(b))}
	}
	sa, sb := ex.strAsSeq(a), ex.strAsSeq(b)
	n := tb.Add(sa.Len, sb.Len)
	bo := ex.newByteObjZero(n)
	ex.bulkCopy(bo, ex.c64(0), sa.Snap, sa.Off, sa.Len)
	ex.bulkCopy(bo, sa.Len, sb.Snap, sb.Off, sb.Len)
	return &Str{K: strSeq, Snap: bo.snapshot(), Off: ex.c64(0), Len: n}
}

// strID maps a string to a 64-bit identity usable in UFs and atom equality.
func (ex *Exec) strID(s *Str) *smt.Term {
	switch s.K {
	case strConc:
		return ex.eng.internStr(s.C)
	case strAtom:
		return s.Atom
	}
	// sequences: identity is a function of bounded content
	n, ok := ex.pinnedLen(s.Len)
	if !ok {
		ex.fail("identity of a sequence string with symbolic length")
	}
	if n == 0 {
		return ex.eng.internStr("")
	}
	parts := make([]*smt.Term, n)
	for i := 0; i < n; i++ {
		parts[i] = ex.readNode(s.Snap, ex.tb().Add(s.Off, ex.c64(uint64(i))))
	}
	return ex.tb().UF("str_of_bytes_"+itoa(n), smt.BV(64), ex.tb().ConcatMany(parts))
}

func itoa(n int) string {
	if n == 0 {
		return "0"
	}
	var b []byte
	for n > 0 {
		b = append([]byte{byte('0' + n%10)}, b...)
		n /= 10
	}
	return string(b)
}

func (ex *Exec) strEq(a, b *Str) *smt.Term {
	tb := ex.tb()
	if a == b {
		return tb.True()
	}
	if a.K == strConc && b.K == strConc {
		return tb.Bool(a.C == b.C)
	}
	if a.K == strAtom || b.K == strAtom {
		if a.K == strSeq || b.K == strSeq {
			ex.fail("comparison of an opaque string with a byte-sequence string")
		}
		return tb.Eq(ex.strID(a), ex.strID(b))
	}
	sa, sb := ex.strAsSeq(a), ex.strAsSeq(b)
	return ex.seqEq(sa.Snap, sa.Off, sa.Len, sb.Snap, sb.Off, sb.Len)
}

func (ex *Exec) strToBytes(s *Str) Value {
	if s.K == strAtom {
		// opaque blob: a zero-length-unknown byte object carrying the ghost
		ex.fail("conversion of opaque string to []byte")
	}
	sq := ex.strAsSeq(s)
	bo := ex.newByteObjZero(sq.Len)
	ex.bulkCopy(bo, ex.c64(0), sq.Snap, sq.Off, sq.Len)
	bo.Ghost = s.Ghost
	return Bytes{BO: bo, Off: ex.c64(0), Len: sq.Len, Cap: sq.Len}
}

func (ex *Exec) bytesToStr(b Bytes) Value {
	if b.BO == nil {
		return ex.concStr("")
	}
	// concrete content -> concrete string
	if n, ok := concreteLen(b.Len); ok && n <= 4096 && b.Off.IsConst() {
		buf := make([]byte, n)
		all := true
		for i := 0; i < n; i++ {
			t := ex.readByte(b.BO, ex.c64(b.Off.Uint64()+uint64(i)))
			if !t.IsConst() {
				all = false
				break
			}
			buf[i] = byte(t.Uint64())
		}
		if all {
			s := ex.concStr(string(buf))
			if whole(b) {
				s.Ghost = b.BO.Ghost
			}
			return s
		}
	}
	s := &Str{K: strSeq, Snap: b.BO.snapshot(), Off: b.Off, Len: b.Len}
	if whole(b) {
		s.Ghost = b.BO.Ghost
	}
	return s
}

func whole(b Bytes) bool {
	return b.Off.IsConst() && b.Off.Uint64() == 0 && b.Len == b.BO.Cap
}

// asciiFold lowers A-Z.
func (ex *Exec) asciiFold(c *smt.Term) *smt.Term {
	tb := ex.tb()
	isUp := tb.And(tb.Ule(tb.Const('A', 8), c), tb.Ule(c, tb.Const('Z', 8)))
	return tb.Ite(isUp, tb.Add(c, tb.Const(32, 8)), c)
}

// strEqualFold models strings.EqualFold for ASCII content.
func (ex *Exec) strEqualFold(a, b *Str) *smt.Term {
	tb := ex.tb()
	if a.K == strAtom || b.K == strAtom {
		ex.fail("EqualFold on opaque strings")
	}
	sa, sb := ex.strAsSeq(a), ex.strAsSeq(b)
	n, ok := concreteLen(sa.Len)
	if !ok {
		n, ok = concreteLen(sb.Len)
	}
	if !ok {
		n, ok = ex.pinnedLen(sa.Len)
	}
	if !ok {
		n, ok = ex.pinnedLen(sb.Len)
	}
	if !ok {
		ub, ok2 := ex.upperBound(sa.Len)
		if !ok2 {
			ub, ok2 = ex.upperBound(sb.Len)
		}
		if !ok2 {
			ex.fail("EqualFold on strings of unbounded symbolic length")
		}
		conj := []*smt.Term{tb.Eq(sa.Len, sb.Len)}
		for i := 0; i < ub; i++ {
			ci := ex.c64(uint64(i))
			x := ex.asciiFold(ex.readNode(sa.Snap, tb.Add(sa.Off, ci)))
			y := ex.asciiFold(ex.readNode(sb.Snap, tb.Add(sb.Off, ci)))
			conj = append(conj, tb.Or(tb.Ule(sa.Len, ci), tb.Eq(x, y)))
		}
		return tb.And(conj...)
	}
	conj := []*smt.Term{tb.Eq(sa.Len, sb.Len), tb.Eq(sa.Len, ex.c64(uint64(n)))}
	for i := 0; i < n; i++ {
		ci := ex.c64(uint64(i))
		x := ex.asciiFold(ex.readNode(sa.Snap, tb.Add(sa.Off, ci)))
		y := ex.asciiFold(ex.readNode(sb.Snap, tb.Add(sb.Off, ci)))
		conj = append(conj, tb.Eq(x, y))
	}
	return tb.And(conj...)
}
