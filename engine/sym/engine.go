package sym

import (
	"fmt"
	"os"
	"go/token"
	"go/types"
	"math/big"
	"sort"
	"strings"
	"sync"
	"time"

	"gosym/smt"

	"golang.org/x/tools/go/ssa"
)

type Config struct {
	MaxDenseIte    int
	MaxSeqEq       int
	Unwind         int
	MaxSteps       int
	MaxPaths       int
	QueryTimeoutMs int
	Solver         string
	// Transparent: package paths (exact or prefix ending in /) whose function bodies are executed.
	Transparent []string
	// Merge: functions (full names) whose paths are merged into one result.
	Merge map[string]bool
	// SkipInit: init functions (full names) that are not executed.
	SkipInit map[string]bool
	Verbose  int
	Deadline time.Time
	// EagerMerge: ask the solver for branch feasibility inside merged callees too
	EagerMerge bool
}

func DefaultConfig() Config {
	return Config{MaxDenseIte: 4096, MaxSeqEq: 256, Unwind: 64, MaxSteps: 50_000_000, MaxPaths: 100000, QueryTimeoutMs: 20000,
		Merge: map[string]bool{}, SkipInit: map[string]bool{}}
}

// Finding is a feasible violation of an obligation (panic, assertion, frozen write).
type Finding struct {
	Kind    string                 `json:"kind"`
	Label   string                 `json:"label,omitempty"`
	Func    string                 `json:"func"`
	Pos     string                 `json:"pos"`
	Detail  string                 `json:"detail,omitempty"`
	Harness string                 `json:"harness"`
	Inputs  map[string]interface{} `json:"inputs,omitempty"`
	Choices map[string]int64       `json:"choices,omitempty"`
	Stack   []string               `json:"stack,omitempty"`
	SolverS float64                `json:"solver_s"`
}

func (f *Finding) Key() string { return f.Kind + "|" + f.Label + "|" + f.Func + "|" + f.Pos }

type Inconclusive struct {
	Reason string `json:"reason"`
	Func   string `json:"func,omitempty"`
	Pos    string `json:"pos,omitempty"`
}

type Report struct {
	Harness        string             `json:"harness"`
	Paths          int                `json:"paths"`
	PathsReturned  int                `json:"paths_returned"`
	PathsPanicked  int                `json:"paths_panicked"`
	PathsDead      int                `json:"paths_dead"`
	Branches       int                `json:"branch_decisions"`
	Forks          int                `json:"forks"`
	MergedCalls    int                `json:"merged_calls"`
	QuickDecisions int                `json:"interval_decisions"`
	Obligations    int                `json:"obligations"`
	Discharged     int                `json:"discharged"`
	Steps          int64              `json:"ssa_steps"`
	Findings       []*Finding         `json:"findings"`
	Inconclusive   []Inconclusive     `json:"inconclusive"`
	Reach          map[string]bool    `json:"reach"`
	Asserts        map[string]int     `json:"asserts_checked"`
	FuncInstrs     map[string]int     `json:"functions_encoded"`
	Stubs          map[string]int     `json:"stubs_used"`
	Assumes        int                `json:"assumes"`
	Queries        int                `json:"solver_queries"`
	CacheHits      int                `json:"solver_cache_hits"`
	Unknowns       int                `json:"solver_unknowns"`
	SolverS        float64            `json:"solver_s"`
	SolverMaxS     float64            `json:"solver_max_query_s"`
	WallS          float64            `json:"wall_s"`
	SamplePaths    []string           `json:"sample_paths"`
	Exits          map[string]int     `json:"exits,omitempty"`
	Notes          []string           `json:"notes,omitempty"`
	SolverErrors   []string           `json:"solver_errors,omitempty"`
	Bounds         map[string]string  `json:"bounds,omitempty"`
	Emits          []string           `json:"emits,omitempty"`
	Workers        int                `json:"path_workers,omitempty"`
	MaxMergedPaths int                `json:"max_paths_in_a_merged_call,omitempty"`
}

type Engine struct {
	Prog    *ssa.Program
	Fset    *token.FileSet
	TB      *smt.Table
	Cfg     Config
	Models  map[string]*ssa.Function
	Natives map[string]NativeFn
	RepoPkgs []*ssa.Package // packages whose init runs (in dependency order)
	funcsByName map[string]*ssa.Function

	solver  *smt.Solver
	strIntern map[string]int
	rep     *Report
	shared  *Shared
	errStringType types.Type
	valIdx  map[*ssa.Function]map[ssa.Value]int
	viMu    sync.Mutex
}

type flagRec struct {
	p Ptr
	t types.Type
}

type NativeFn func(ex *Exec, site ssa.Instruction, args []Value) Value

func NewEngine(prog *ssa.Program, cfg Config) *Engine {
	e := &Engine{Prog: prog, Fset: prog.Fset, TB: smt.NewTable(), Cfg: cfg, Models: map[string]*ssa.Function{},
		Natives: map[string]NativeFn{}, funcsByName: map[string]*ssa.Function{}, strIntern: map[string]int{}, valIdx: map[*ssa.Function]map[ssa.Value]int{}}
	registerNatives(e)
	registerNatives2(e)
	return e
}

func (e *Engine) transparent(fn *ssa.Function) bool {
	p := fn.Package()
	var path string
	if p != nil {
		path = p.Pkg.Path()
	} else if fn.Object() != nil && fn.Object().Pkg() != nil {
		path = fn.Object().Pkg().Path()
	} else if o := fn.Origin(); o != nil && o.Package() != nil {
		path = o.Package().Pkg.Path()
	} else if fn.Parent() != nil {
		return e.transparent(fn.Parent())
	} else {
		// synthetic wrappers/bound methods without a package
		return true
	}
	for _, t := range e.Cfg.Transparent {
		if t == path || (strings.HasSuffix(t, "/") && strings.HasPrefix(path+"/", t)) {
			return true
		}
	}
	return false
}

func (e *Engine) pos(p token.Pos) string {
	if !p.IsValid() {
		return "-"
	}
	ps := e.Fset.Position(p)
	f := ps.Filename
	if i := strings.Index(f, "/repo/"); i >= 0 {
		f = f[i+6:]
	} else if i := strings.Index(f, "/pkg/mod/"); i >= 0 {
		f = f[i+9:]
	} else if i := strings.Index(f, "/src/"); i >= 0 {
		f = f[i+5:]
	}
	return fmt.Sprintf("%s:%d", f, ps.Line)
}

func (e *Engine) internStr(s string) *smt.Term {
	id, ok := e.strIntern[s]
	if !ok {
		id = len(e.strIntern) + 1
		e.strIntern[s] = id
	}
	// concrete strings live in the upper half of the id space so that small
	// model values of atoms do not collide with them by accident in replays
	return e.TB.ConstBig(new(big.Int).Add(new(big.Int).Lsh(big.NewInt(1), 62), big.NewInt(int64(id))), 64)
}

// ---- path control ----

type endKind int

const (
	endReturn endKind = iota
	endPanic
	endDead
	endAssume
	endExit
	endAbort
)

type pathEnd struct {
	kind endKind
	msg  string
	code int64
}

type traceCtx struct {
	prefix  []int64
	cursor  int
	trace   []int64
	forks   [][]int64
	assumed bool
}

type inputRec struct {
	Name string
	Kind string // scalar | bytes | str
	T    *smt.Term
	Arr  *smt.Term
	Len  *smt.Term
	Cap  *smt.Term
	W    int
}

type frame struct {
	fn     *ssa.Function
	idx    map[ssa.Value]int
	env    []Value
	set    []bool
	defers []func()
	forks  map[ssa.Instruction]int
	site   ssa.Instruction
}

func (f *frame) def(v ssa.Value, x Value) {
	i := f.idx[v]
	f.env[i] = x
	f.set[i] = true
}

// valueIndex numbers the SSA values of a function (computed once).
func (e *Engine) valueIndex(fn *ssa.Function) map[ssa.Value]int {
	e.viMu.Lock()
	defer e.viMu.Unlock()
	if m, ok := e.valIdx[fn]; ok {
		return m
	}
	m := map[ssa.Value]int{}
	for _, p := range fn.Params {
		m[p] = len(m)
	}
	for _, p := range fn.FreeVars {
		m[p] = len(m)
	}
	for _, b := range fn.Blocks {
		for _, ins := range b.Instrs {
			if v, ok := ins.(ssa.Value); ok {
				m[v] = len(m)
			}
		}
	}
	e.valIdx[fn] = m
	return m
}

type Exec struct {
	eng       *Engine
	pc        []*smt.Term
	pcSet     map[int]bool
	tr        *traceCtx
	objSeq    int
	nodeSeq   int
	symSeq    map[string]int
	globals   map[*ssa.Global]*Obj
	inputs    []inputRec
	inputSeen map[string]bool
	choices   map[string]int64
	frames    []*frame
	steps     int64
	pinned    map[int]int
	ubCache   map[int]int
	readCache *readCache
	mergeMarks []int
	unwind    int
	clock     *smt.Term
	exitCode  int64
	harness   string
	expectPanic string
	ghostSeq  int
	curInstr  ssa.Instruction
	initDone  map[*ssa.Package]bool
	frozenAll bool
	softFrozen []interface{} // objects frozen by FreezeGlobals: writable inside synchronised regions
	syncDepth  int
	forkReads bool
	facts     map[int]ival
	ivalMemo  map[int]ival
	subst     map[int]*smt.Term
	nzMemo    map[int]*smt.Term
	intFacts  map[string]ival
	noteOnce  map[string]bool
	autoMerge int
	flags     map[string]flagRec
	clockLoc  *Obj
}

func (ex *Exec) tb() *smt.Table { return ex.eng.TB }

func (ex *Exec) fail(format string, a ...interface{}) {
	msg := fmt.Sprintf(format, a...)
	fn, pos := ex.where()
	ex.eng.addInconclusive(Inconclusive{Reason: msg, Func: fn, Pos: pos})
	panic(pathEnd{kind: endAbort, msg: msg})
}

func (e *Engine) addInconclusive(i Inconclusive) {
	for _, x := range e.rep.Inconclusive {
		if x == i {
			return
		}
	}
	if len(e.rep.Inconclusive) < 50 {
		e.rep.Inconclusive = append(e.rep.Inconclusive, i)
	}
}

func (ex *Exec) where() (string, string) {
	if len(ex.frames) == 0 {
		return "", ""
	}
	// innermost frame that belongs to non-harness code if possible
	f := ex.frames[len(ex.frames)-1]
	p := token.NoPos
	if ex.curInstr != nil {
		p = ex.curInstr.Pos()
	}
	if !p.IsValid() && f.site != nil {
		p = f.site.Pos()
	}
	return f.fn.String(), ex.eng.pos(p)
}

func (ex *Exec) stack() []string {
	var out []string
	for i := len(ex.frames) - 1; i >= 0 && len(out) < 12; i-- {
		f := ex.frames[i]
		s := f.fn.String()
		if f.site != nil {
			s += " @" + ex.eng.pos(f.site.Pos())
		}
		out = append(out, s)
	}
	return out
}

func (ex *Exec) addPC(c *smt.Term) {
	if c.IsTrue() {
		return
	}
	if c.Op == smt.OAnd {
		for _, a := range c.Args {
			ex.addPC(a)
		}
		return
	}
	if c.Op == smt.ONot && c.Args[0].Op == smt.OOr {
		for _, a := range c.Args[0].Args {
			ex.addPC(ex.tb().Not(a))
		}
		return
	}
	if ex.pcSet[c.ID] {
		return
	}
	ex.pcSet[c.ID] = true
	ex.pc = append(ex.pc, c)
	ex.learn(c)
	// record pinned values from equalities with constants
	if c.Op == smt.OEq && c.Args[1].IsConst() && c.Args[0].S.K == smt.KBV && c.Args[0].S.W == 64 {
		ex.pinned[c.Args[0].ID] = int(c.Args[1].Int64())
	} else if c.Op == smt.OEq && c.Args[0].IsConst() && c.Args[1].S.K == smt.KBV && c.Args[1].S.W == 64 {
		ex.pinned[c.Args[1].ID] = int(c.Args[0].Int64())
	}
}

// check decides pc ∧ extra.
func (ex *Exec) check(extra ...*smt.Term) smt.Result {
	for _, e := range extra {
		if e.IsFalse() {
			return smt.Unsat
		}
	}
	q := make([]*smt.Term, 0, len(ex.pc)+len(extra))
	q = append(q, ex.pc...)
	for _, e := range extra {
		if e.Op == smt.ONot && ex.pcSet[e.Args[0].ID] {
			return smt.Unsat
		}
		if !e.IsTrue() && !ex.pcSet[e.ID] {
			q = append(q, e)
		}
	}
	if !ex.eng.Cfg.Deadline.IsZero() && time.Now().After(ex.eng.Cfg.Deadline) {
		ex.fail("time budget exhausted")
	}
	t0 := time.Now()
	r := ex.eng.solver.Check(q)
	if d := time.Since(t0); d > 2*time.Second && ex.eng.Cfg.Verbose > 0 {
		fn, pos := ex.where()
		last := ""
		if len(extra) > 0 {
			last = extra[len(extra)-1].String()
			if len(last) > 300 {
				last = last[:300]
			}
		}
		fmt.Printf("  slow query %.1fs -> %v at %s %s pc=%d extra=%s\n", d.Seconds(), r, fn, pos, len(ex.pc), last)
	}
	return r
}

func (ex *Exec) modelOf(ts []*smt.Term, extra ...*smt.Term) ([]*big.Int, bool) {
	q := append(append([]*smt.Term{}, ex.pc...), extra...)
	r, m := ex.eng.solver.CheckModel(q, ts)
	if r != smt.Sat {
		return nil, false
	}
	out := make([]*big.Int, len(ts))
	for i, t := range ts {
		out[i] = m[t.ID]
		if out[i] == nil {
			return nil, false
		}
	}
	return out, true
}

func (ex *Exec) replayed() (int64, bool) {
	if ex.tr.cursor < len(ex.tr.prefix) {
		v := ex.tr.prefix[ex.tr.cursor]
		ex.tr.cursor++
		ex.tr.trace = append(ex.tr.trace, v)
		return v, true
	}
	return 0, false
}

func (ex *Exec) record(d int64, alts ...int64) {
	ex.tr.cursor++
	base := len(ex.tr.trace)
	ex.tr.trace = append(ex.tr.trace, d)
	for _, a := range alts {
		alt := make([]int64, base+1)
		copy(alt, ex.tr.trace[:base])
		alt[base] = a
		ex.tr.forks = append(ex.tr.forks, alt)
	}
}

// branch decides a symbolic condition, forking when both sides are feasible.
func (ex *Exec) branch(cond *smt.Term, site ssa.Instruction) bool {
	if cond.IsTrue() {
		return true
	}
	if cond.IsFalse() {
		return false
	}
	tb := ex.tb()
	ex.eng.rep.Branches++
	if v, ok := ex.replayed(); ok {
		switch v {
		case 1:
			ex.addPC(cond)
			return true
		case 0:
			ex.addPC(tb.Not(cond))
			return false
		case 3:
			return true
		default:
			return false
		}
	}
	if v, k := ex.quick(cond); k {
		if v {
			ex.record(3)
		} else {
			ex.record(2)
		}
		return v
	}
	if ex.pcSet[cond.ID] {
		ex.record(1)
		return true
	}
	nc := tb.Not(cond)
	if ex.pcSet[nc.ID] {
		ex.record(0)
		return false
	}
	tF, fF := true, true
	if len(ex.mergeMarks) > 0 && !ex.eng.Cfg.EagerMerge {
		// inside a merged callee both sides are explored without asking the solver:
		// an infeasible side only contributes an alternative under an unsatisfiable
		// condition, and its obligations are still checked against pc
	} else {
		tF = ex.check(cond) != smt.Unsat
		if tF {
			fF = ex.check(nc) != smt.Unsat
		}
	}
	switch {
	case tF && fF:
		if site != nil && len(ex.frames) > 0 {
			f := ex.frames[len(ex.frames)-1]
			if f.forks == nil {
				f.forks = map[ssa.Instruction]int{}
			}
			f.forks[site]++
			if f.forks[site] > ex.unwind {
				fn, pos := ex.where()
				ex.eng.addInconclusive(Inconclusive{Reason: fmt.Sprintf("unwinding assertion: loop branch forked more than %d times", ex.unwind), Func: fn, Pos: pos})
				panic(pathEnd{kind: endAbort, msg: "unwind"})
			}
		}
		ex.eng.rep.Forks++
		ex.record(1, 0)
		ex.addPC(cond)
		return true
	case tF:
		ex.record(1)
		ex.addPC(cond)
		return true
	case fF:
		ex.record(0)
		ex.addPC(nc)
		return false
	}
	panic(pathEnd{kind: endDead})
}

// choose forks concretely over 0..k-1.
func (ex *Exec) choose(name string, k int) int {
	if k <= 0 {
		ex.fail("vp.Choose with k=%d", k)
	}
	if k == 1 {
		return 0
	}
	if v, ok := ex.replayed(); ok {
		ex.choices[name] = v
		return int(v)
	}
	alts := make([]int64, 0, k-1)
	for i := k - 1; i >= 1; i-- {
		alts = append(alts, int64(i))
	}
	ex.record(0, alts...)
	ex.choices[name] = 0
	return 0
}

// concretize case-splits on the feasible values of t (at most max of them).
func (ex *Exec) concretize(t *smt.Term, max int, what string) int64 {
	if t.IsConst() {
		return t.Int64()
	}
	tb := ex.tb()
	for i := 0; i < max; i++ {
		var v *big.Int
		if rv, ok := ex.replayedVal(); ok {
			v = big.NewInt(rv)
		} else {
			vals, ok := ex.modelOf([]*smt.Term{t})
			if !ok {
				panic(pathEnd{kind: endDead})
			}
			v = vals[0]
			ex.tr.cursor++
			ex.tr.trace = append(ex.tr.trace, v.Int64())
		}
		c := tb.ConstBig(v, t.S.W)
		if ex.branch(tb.Eq(t, c), nil) {
			return c.Int64()
		}
	}
	ex.fail("case split on %s exceeded %d values", what, max)
	return 0
}

func (ex *Exec) replayedVal() (int64, bool) { return ex.replayed() }

// oblige records a proof obligation "bad is infeasible".
func (ex *Exec) oblige(kind, label string, bad *smt.Term, detail string) {
	if bad.IsFalse() {
		return
	}
	rep := ex.eng.rep
	rep.Obligations++
	tb := ex.tb()
	fn, pos := ex.where()
	f := &Finding{Kind: kind, Label: label, Func: fn, Pos: pos, Detail: detail, Harness: ex.harness}
	key := f.Key()
	if ex.expectPanic != "" && kind != "assert" {
		// harness declared that a panic here is the asserted outcome
		ex.addPC(tb.Not(bad))
		rep.Discharged++
		return
	}
	if ex.eng.shared.seen(key) {
		// already reported for this site: continue under "no violation"
		if bad.IsTrue() {
			if kind == "frozen-write" {
				return // the write itself is harmless for the rest of the path
			}
			panic(pathEnd{kind: endPanic, msg: kind})
		}
		ex.addPC(tb.Not(bad))
		ex.tr.assumed = true
		return
	}
	if v, k := ex.quick(bad); k && !v {
		rep.Discharged++
		return
	}
	r := ex.check(bad)
	switch r {
	case smt.Unsat:
		rep.Discharged++
		// the negation is implied by the path condition: remember its
		// arithmetic content (not added to the solver's assumptions)
		ex.learnDerived(tb.Not(bad))
		return
	case smt.Unknown:
		ex.eng.addInconclusive(Inconclusive{Reason: "solver unknown/timeout on obligation " + kind + " " + label, Func: fn, Pos: pos})
		ex.addPC(tb.Not(bad))
		ex.tr.assumed = true
		return
	}
	// sat: extract a model
	start := time.Now()
	f.Inputs, _ = ex.extractInputs(bad)
	f.Choices = map[string]int64{}
	for k, v := range ex.choices {
		f.Choices[k] = v
	}
	f.Stack = ex.stack()
	f.SolverS = time.Since(start).Seconds()
	if ex.eng.shared.mark(key) {
		rep.Findings = append(rep.Findings, f)
		if ex.eng.Cfg.Verbose > 0 {
			fmt.Printf("  finding: %s %s %s %s %s\n", kind, label, fn, pos, detail)
		}
	}
	if bad.IsTrue() {
		if kind == "frozen-write" {
			return
		}
		panic(pathEnd{kind: endPanic, msg: kind})
	}
	ex.addPC(tb.Not(bad))
	ex.tr.assumed = true
}

func (ex *Exec) learnDerived(c *smt.Term) {
	switch {
	case c.Op == smt.OAnd:
		for _, a := range c.Args {
			ex.learnDerived(a)
		}
	case c.Op == smt.ONot && c.Args[0].Op == smt.OOr:
		for _, a := range c.Args[0].Args {
			ex.learnDerived(ex.tb().Not(a))
		}
	default:
		ex.learn(c)
	}
}

// extractInputs evaluates all named inputs in a model of pc ∧ extra.
func (ex *Exec) extractInputs(extra *smt.Term) (map[string]interface{}, bool) {
	var want []*smt.Term
	for _, in := range ex.inputs {
		switch in.Kind {
		case "scalar", "atom":
			want = append(want, in.T)
		default:
			want = append(want, in.Len)
			if in.Cap != nil {
				want = append(want, in.Cap)
			}
		}
	}
	q := append([]*smt.Term{}, ex.pc...)
	q = append(q, extra)
	tb := ex.tb()
	// prefer small buffers: try to bound every symbolic length first
	for _, lim := range []uint64{1500, 20000} {
		var small []*smt.Term
		for _, in := range ex.inputs {
			if in.Kind == "scalar" || in.Kind == "atom" {
				continue
			}
			if !in.Len.IsConst() {
				small = append(small, tb.Ule(in.Len, ex.c64(lim)))
			}
			if in.Cap != nil && !in.Cap.IsConst() {
				small = append(small, tb.Ule(in.Cap, ex.c64(lim)))
			}
		}
		if len(small) == 0 {
			break
		}
		if ex.eng.solver.Check(append(append([]*smt.Term{}, q...), small...)) == smt.Sat {
			q = append(q, small...)
			break
		}
	}
	r, m := ex.eng.solver.CheckModel(q, want)
	if r != smt.Sat {
		return nil, false
	}
	out := map[string]interface{}{}
	var pins []*smt.Term
	var want2 []*smt.Term
	type rng struct {
		in  inputRec
		n   int
		off int
	}
	var rngs []rng
	for _, in := range ex.inputs {
		switch in.Kind {
		case "atom":
			v := m[in.T.ID]
			out[in.Name] = v.String()
			for str, id := range ex.eng.strIntern {
				if ex.eng.internStr(str).Val.Cmp(v) == 0 {
					_ = id
					out[in.Name] = "str:" + str
				}
			}
			pins = append(pins, tb.Eq(in.T, tb.ConstBig(v, 64)))
		case "scalar":
			v := m[in.T.ID]
			if in.T.S.K == smt.KBool {
				out[in.Name] = v.Sign() != 0
			} else {
				out[in.Name] = v.String()
			}
			if in.T.S.K == smt.KBool {
				if v.Sign() != 0 {
					pins = append(pins, in.T)
				} else {
					pins = append(pins, tb.Not(in.T))
				}
			} else {
				pins = append(pins, tb.Eq(in.T, tb.ConstBig(v, in.T.S.W)))
			}
		default:
			lv := m[in.Len.ID]
			n := int(lv.Int64())
			pins = append(pins, tb.Eq(in.Len, tb.ConstBig(lv, 64)))
			total := n
			if in.Cap != nil {
				cv := m[in.Cap.ID]
				pins = append(pins, tb.Eq(in.Cap, tb.ConstBig(cv, 64)))
				total = int(cv.Int64())
			}
			if total > 1<<16 {
				total = 1 << 16
			}
			rngs = append(rngs, rng{in, n, len(want2)})
			for i := 0; i < total; i++ {
				want2 = append(want2, tb.Select(in.Arr, ex.c64(uint64(i))))
			}
			rngs[len(rngs)-1].n = total
			out[in.Name+"#len"] = n
		}
	}
	// booleans cannot be pinned through ConstBig with width; rebuild pins for bools
	pins2 := pins[:0]
	for _, p := range pins {
		pins2 = append(pins2, p)
	}
	if len(want2) > 0 {
		q2 := append(append([]*smt.Term{}, q...), pins2...)
		r2, m2 := ex.eng.solver.CheckModel(q2, want2)
		if r2 != smt.Sat {
			return out, false
		}
		for _, rg := range rngs {
			buf := make([]byte, rg.n)
			for i := 0; i < rg.n; i++ {
				buf[i] = byte(m2[want2[rg.off+i].ID].Uint64())
			}
			out[rg.in.Name] = fmt.Sprintf("%x", buf)
		}
	}
	return out, true
}

func maxInt(a, b int) int {
	if a > b {
		return a
	}
	return b
}

// ---- harness driver ----

func (e *Engine) LookupFunc(name string) *ssa.Function { return e.funcsByName[name] }

func (e *Engine) IndexFunctions(pkgs []*ssa.Package) {
	for _, p := range pkgs {
		for _, m := range p.Members {
			if f, ok := m.(*ssa.Function); ok {
				e.funcsByName[f.String()] = f
			}
		}
	}
}

// Shared is the exploration state common to the workers of one harness: the
// pending decision prefixes, the path count and the sites already reported.
// Every worker is an Engine of its own (own term table and solver process).
type Shared struct {
	mu       sync.Mutex
	cond     *sync.Cond
	work     [][]int64
	active   int
	paths    int
	maxPaths int
	deadline time.Time
	keys     map[string]bool
	stopped  bool
}

func NewShared(cfg Config) *Shared {
	s := &Shared{work: [][]int64{nil}, maxPaths: cfg.MaxPaths, deadline: cfg.Deadline, keys: map[string]bool{}}
	s.cond = sync.NewCond(&s.mu)
	return s
}

// Pending: number of prefixes waiting for a worker.
func (s *Shared) Pending() int {
	s.mu.Lock()
	defer s.mu.Unlock()
	if s.stopped {
		return 0
	}
	return len(s.work)
}

// pop hands out the next prefix. block: wait for other workers' forks when the
// queue is momentarily empty (the primary worker); otherwise give up at once.
// reason is non-empty when exploration stops on a budget.
func (s *Shared) pop(block bool) (prefix []int64, ok bool, reason string) {
	s.mu.Lock()
	defer s.mu.Unlock()
	for {
		if s.stopped {
			return nil, false, ""
		}
		if len(s.work) > 0 {
			if s.paths >= s.maxPaths {
				s.stopped = true
				s.cond.Broadcast()
				return nil, false, fmt.Sprintf("path budget %d exhausted with %d prefixes pending", s.maxPaths, len(s.work))
			}
			if !s.deadline.IsZero() && time.Now().After(s.deadline) {
				s.stopped = true
				s.cond.Broadcast()
				return nil, false, fmt.Sprintf("time budget exhausted with %d prefixes pending", len(s.work))
			}
			prefix = s.work[len(s.work)-1]
			s.work = s.work[:len(s.work)-1]
			s.active++
			s.paths++
			return prefix, true, ""
		}
		if s.active == 0 || !block {
			return nil, false, ""
		}
		s.cond.Wait()
	}
}

func (s *Shared) done(forks [][]int64) {
	s.mu.Lock()
	s.work = append(s.work, forks...)
	s.active--
	s.cond.Broadcast()
	s.mu.Unlock()
}

func (s *Shared) seen(key string) bool {
	s.mu.Lock()
	defer s.mu.Unlock()
	return s.keys[key]
}

// mark reports whether key was new.
func (s *Shared) mark(key string) bool {
	s.mu.Lock()
	defer s.mu.Unlock()
	if s.keys[key] {
		return false
	}
	s.keys[key] = true
	return true
}

// Run explores all paths of the harness function with this engine alone.
func (e *Engine) Run(fn *ssa.Function) *Report {
	return e.RunShared(fn, NewShared(e.Cfg), true, nil)
}

// RunShared is one worker's loop. primary: blocks on an empty queue until all
// workers are idle. afterPath (optional) is called after every path, e.g. to
// start further workers.
func (e *Engine) RunShared(fn *ssa.Function, sh *Shared, primary bool, afterPath func()) *Report {
	start := time.Now()
	rep := &Report{Harness: fn.Name(), Reach: map[string]bool{}, Asserts: map[string]int{}, FuncInstrs: map[string]int{},
		Stubs: map[string]int{}, Exits: map[string]int{}, Bounds: map[string]string{}, Workers: 1}
	e.rep = rep
	e.shared = sh
	logf := ""
	if d := os.Getenv("GOSYM_SMTLOG"); d != "" {
		logf = d + "/" + fn.Name() + ".smt2"
		if !primary {
			logf = ""
		}
	}
	s, err := smt.NewSolver(e.TB, smt.SolverSpec{Name: e.Cfg.Solver, TimeoutMs: e.Cfg.QueryTimeoutMs, LogFile: logf})
	if err != nil {
		rep.Inconclusive = append(rep.Inconclusive, Inconclusive{Reason: "cannot start solver: " + err.Error()})
		return rep
	}
	e.solver = s
	defer s.Close()
	for {
		prefix, ok, reason := sh.pop(primary)
		if reason != "" {
			e.addInconclusive(Inconclusive{Reason: reason})
		}
		if !ok {
			break
		}
		ex := e.newExec(prefix, fn.Name())
		end := ex.runPath(fn)
		rep.Paths++
		rep.Steps += ex.steps
		switch end.kind {
		case endReturn:
			rep.PathsReturned++
		case endPanic:
			rep.PathsPanicked++
		case endDead, endAssume:
			rep.PathsDead++
		case endExit:
			rep.PathsReturned++
			rep.Exits[fmt.Sprint(end.code)]++
		case endAbort:
			// recorded as inconclusive already
		}
		if len(rep.SamplePaths) < 5 && end.kind == endReturn {
			rep.SamplePaths = append(rep.SamplePaths, ex.describePath())
		}
		sh.done(ex.tr.forks)
		if e.Cfg.Verbose > 1 {
			fmt.Printf("  path %d end=%d steps=%d pc=%d pending=%d\n", rep.Paths, end.kind, ex.steps, len(ex.pc), sh.Pending())
		}
		if afterPath != nil {
			afterPath()
		}
	}
	rep.Queries = s.Queries
	rep.CacheHits = s.CacheHits
	rep.Unknowns = s.Unknowns
	rep.SolverS = s.Time.Seconds()
	rep.SolverMaxS = s.MaxTime.Seconds()
	rep.SolverErrors = s.Errors
	if len(s.Errors) > 0 {
		e.addInconclusive(Inconclusive{Reason: "solver reported errors: " + s.Errors[0]})
	}
	rep.WallS = time.Since(start).Seconds()
	sort.Slice(rep.Findings, func(i, j int) bool { return rep.Findings[i].Key() < rep.Findings[j].Key() })
	return rep
}

// MergeReports adds the workers' reports of one harness up.
func MergeReports(reps []*Report) *Report {
	if len(reps) == 1 {
		return reps[0]
	}
	m := &Report{Harness: reps[0].Harness, Reach: map[string]bool{}, Asserts: map[string]int{}, FuncInstrs: map[string]int{},
		Stubs: map[string]int{}, Exits: map[string]int{}, Bounds: map[string]string{}}
	seenF := map[string]bool{}
	seenN := map[string]bool{}
	for _, r := range reps {
		m.Workers += r.Workers
		m.Paths += r.Paths
		m.PathsReturned += r.PathsReturned
		m.PathsPanicked += r.PathsPanicked
		m.PathsDead += r.PathsDead
		m.Branches += r.Branches
		m.Forks += r.Forks
		m.MergedCalls += r.MergedCalls
		m.QuickDecisions += r.QuickDecisions
		m.Obligations += r.Obligations
		m.Discharged += r.Discharged
		m.Steps += r.Steps
		m.Assumes += r.Assumes
		m.Queries += r.Queries
		m.CacheHits += r.CacheHits
		m.Unknowns += r.Unknowns
		m.SolverS += r.SolverS
		if r.SolverMaxS > m.SolverMaxS {
			m.SolverMaxS = r.SolverMaxS
		}
		if r.WallS > m.WallS {
			m.WallS = r.WallS
		}
		if r.MaxMergedPaths > m.MaxMergedPaths {
			m.MaxMergedPaths = r.MaxMergedPaths
		}
		for _, f := range r.Findings {
			if !seenF[f.Key()] {
				seenF[f.Key()] = true
				m.Findings = append(m.Findings, f)
			}
		}
		for _, i := range r.Inconclusive {
			dup := false
			for _, x := range m.Inconclusive {
				if x == i {
					dup = true
				}
			}
			if !dup && len(m.Inconclusive) < 50 {
				m.Inconclusive = append(m.Inconclusive, i)
			}
		}
		for k, v := range r.Reach {
			m.Reach[k] = m.Reach[k] || v
		}
		for k, v := range r.Asserts {
			m.Asserts[k] += v
		}
		for k, v := range r.FuncInstrs {
			m.FuncInstrs[k] += v
		}
		for k, v := range r.Stubs {
			m.Stubs[k] += v
		}
		for k, v := range r.Exits {
			m.Exits[k] += v
		}
		for k, v := range r.Bounds {
			m.Bounds[k] = v
		}
		for _, n := range r.Notes {
			if !seenN[n] {
				seenN[n] = true
				m.Notes = append(m.Notes, n)
			}
		}
		for _, p := range r.SamplePaths {
			if len(m.SamplePaths) < 5 {
				m.SamplePaths = append(m.SamplePaths, p)
			}
		}
		m.SolverErrors = append(m.SolverErrors, r.SolverErrors...)
		m.Emits = append(m.Emits, r.Emits...)
	}
	sort.Slice(m.Findings, func(i, j int) bool { return m.Findings[i].Key() < m.Findings[j].Key() })
	return m
}

func (ex *Exec) describePath() string {
	var parts []string
	for k, v := range ex.choices {
		parts = append(parts, fmt.Sprintf("%s=%d", k, v))
	}
	sort.Strings(parts)
	return fmt.Sprintf("choices{%s} decisions=%d pc_conjuncts=%d steps=%d inputs=%d", strings.Join(parts, ","), len(ex.tr.trace), len(ex.pc), ex.steps, len(ex.inputs))
}

func (e *Engine) newExec(prefix []int64, harness string) *Exec {
	return &Exec{eng: e, pcSet: map[int]bool{}, tr: &traceCtx{prefix: prefix}, symSeq: map[string]int{},
		globals: map[*ssa.Global]*Obj{}, inputSeen: map[string]bool{}, choices: map[string]int64{},
		pinned: map[int]int{}, ubCache: map[int]int{}, readCache: &readCache{m: map[[2]int]*smt.Term{}}, unwind: e.Cfg.Unwind,
		harness: harness, initDone: map[*ssa.Package]bool{}, noteOnce: map[string]bool{}}
}

func (ex *Exec) runPath(fn *ssa.Function) (end pathEnd) {
	defer func() {
		if r := recover(); r != nil {
			if pe, ok := r.(pathEnd); ok {
				end = pe
				return
			}
			// engine bug or unsupported construct: report as inconclusive with context
			f, pos := ex.where()
			ex.eng.addInconclusive(Inconclusive{Reason: fmt.Sprintf("engine error: %v", r), Func: f, Pos: pos})
			if ex.eng.Cfg.Verbose > 0 {
				panic(r)
			}
			end = pathEnd{kind: endAbort}
		}
	}()
	for _, p := range ex.eng.RepoPkgs {
		ex.runInit(p)
	}
	ex.callFunc(fn, nil, nil, nil)
	return pathEnd{kind: endReturn}
}

func (ex *Exec) runInit(p *ssa.Package) {
	if ex.initDone[p] {
		return
	}
	ex.initDone[p] = true
	init := p.Func("init")
	if init == nil || ex.eng.SkipInitPkg(p) {
		return
	}
	ex.callFunc(init, nil, nil, nil)
}

func (ex *Exec) freshName(base string) string {
	ex.symSeq[base]++
	if ex.symSeq[base] == 1 {
		return base
	}
	return fmt.Sprintf("%s#%d", base, ex.symSeq[base])
}

func (e *Engine) noteImpure(fn string) {
	e.noteOnce("merge list: " + fn + " writes to pre-existing memory on some path; executed as an ordinary call there")
}

func (e *Engine) noteOnce(msg string) {
	for _, n := range e.rep.Notes {
		if n == msg {
			return
		}
	}
	e.rep.Notes = append(e.rep.Notes, msg)
}
