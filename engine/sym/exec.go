package sym

import (
	"fmt"
	"go/constant"
	"go/token"
	"go/types"
	"math/big"
	"strings"

	"gosym/smt"

	"golang.org/x/tools/go/ssa"
)

// ---- zero values ----

func (ex *Exec) zero(t types.Type) Value {
	tb := ex.tb()
	switch u := t.Underlying().(type) {
	case *types.Basic:
		switch {
		case u.Info()&types.IsBoolean != 0:
			return tb.False()
		case u.Info()&types.IsString != 0:
			return &Str{K: strConc}
		case u.Kind() == types.UnsafePointer:
			return Ptr{}
		case u.Info()&types.IsInteger != 0:
			w, _, _ := typeWidth(u)
			return tb.Const(0, w)
		case u.Kind() == types.UntypedNil:
			return nil
		case u.Info()&types.IsFloat != 0:
			return tb.Const(0, 64) // floats are not supported; carried as opaque bits
		}
	case *types.Pointer:
		return Ptr{}
	case *types.Slice:
		if isByteType(u.Elem()) {
			return Bytes{}
		}
		return (*GSlice)(nil)
	case *types.Array:
		if isByteType(u.Elem()) {
			return ByteArr{BO: ex.newByteObjZero(ex.c64(uint64(u.Len())))}
		}
		ex.objSeq++
		vec := &Vec{ID: ex.objSeq, Elems: make([]*Obj, u.Len())}
		for i := range vec.Elems {
			vec.Elems[i] = ex.newObj(u.Elem(), ex.zero(u.Elem()))
		}
		return &GArr{Vec: vec}
	case *types.Struct:
		s := &Struct{F: make([]Value, u.NumFields())}
		for i := range s.F {
			s.F[i] = ex.zero(u.Field(i).Type())
		}
		return s
	case *types.Interface:
		return (*Iface)(nil)
	case *types.Map:
		return (*Map)(nil)
	case *types.Signature:
		return (*Func)(nil)
	case *types.Chan:
		return (*Chan)(nil)
	case *types.Tuple:
		tp := make(Tuple, u.Len())
		for i := range tp {
			tp[i] = ex.zero(u.At(i).Type())
		}
		return tp
	}
	ex.fail("zero value of unsupported type %s", t)
	return nil
}

func (ex *Exec) newObj(t types.Type, v Value) *Obj {
	ex.objSeq++
	return &Obj{ID: ex.objSeq, Typ: t, V: v}
}

// ---- constants ----

func (ex *Exec) constVal(c *ssa.Const) Value {
	tb := ex.tb()
	t := c.Type()
	if c.Value == nil {
		return ex.zero(t)
	}
	switch u := t.Underlying().(type) {
	case *types.Basic:
		switch {
		case u.Info()&types.IsBoolean != 0:
			return tb.Bool(constant.BoolVal(c.Value))
		case u.Info()&types.IsString != 0:
			return &Str{K: strConc, C: constant.StringVal(c.Value)}
		case u.Info()&types.IsInteger != 0:
			w, _, _ := typeWidth(u)
			v, ok := constant.Val(constant.ToInt(c.Value)).(*big.Int)
			if !ok {
				i64, _ := constant.Int64Val(constant.ToInt(c.Value))
				v = big.NewInt(i64)
			}
			return tb.ConstBig(v, w)
		case u.Info()&types.IsFloat != 0:
			f, _ := constant.Float64Val(c.Value)
			return tb.Const(uint64(int64(f)), 64)
		}
	}
	ex.fail("unsupported constant %v of type %s", c, t)
	return nil
}

// ---- operand evaluation ----

func (ex *Exec) get(f *frame, v ssa.Value) Value {
	switch v := v.(type) {
	case *ssa.Const:
		return ex.constVal(v)
	case *ssa.Global:
		return Ptr{Obj: ex.global(v)}
	case *ssa.Function:
		return &Func{Fn: v}
	case *ssa.Builtin:
		return &Func{Builtin: v}
	}
	idx, ok := f.idx[v]
	if !ok || !f.set[idx] {
		ex.fail("use of undefined SSA value %s (%T) in %s", v.Name(), v, f.fn)
	}
	return f.env[idx]
}

func (ex *Exec) global(g *ssa.Global) *Obj {
	if o, ok := ex.globals[g]; ok {
		return o
	}
	elem := g.Type().(*types.Pointer).Elem()
	o := ex.newObj(elem, nil)
	o.Name = g.String()
	if init, ok := ex.eng.globalInit(ex, g); ok {
		o.V = init
	} else {
		o.V = ex.zero(elem)
	}
	ex.globals[g] = o
	ex.lazyInit(g)
	if ex.frozenAll && g.Pkg != nil && strings.HasPrefix(g.Pkg.Pkg.Path(), "github.com/google/go-tdx-guest/") && !strings.Contains(g.Pkg.Pkg.Path(), "/zzvp") {
		o.Frozen = ex.syncDepth == 0
		ex.softFrozen = append(ex.softFrozen, o)
	}
	return o
}

// lazyInit: package-level variables of library packages whose bodies are executed
// (bytes, strings, io, time, ...) get their initial values from the package's own
// initialiser, run on first access to any of its variables.
func (ex *Exec) lazyInit(g *ssa.Global) {
	p := g.Pkg
	if p == nil || ex.initDone[p] {
		return
	}
	path := p.Pkg.Path()
	if strings.HasPrefix(path, "github.com/google/go-tdx-guest") {
		return // repository packages: initialised up front (RepoPkgs) or deliberately not
	}
	init := p.Func("init")
	if init == nil || init.Blocks == nil || !ex.eng.transparent(init) {
		return
	}
	ex.initDone[p] = true
	saved := ex.curInstr
	ex.callFunc(init, nil, nil, nil)
	ex.curInstr = saved
}

func (ex *Exec) term(v Value) *smt.Term {
	t, ok := v.(*smt.Term)
	if !ok {
		ex.fail("expected scalar, got %T", v)
	}
	return t
}

// ---- load / store ----

func (ex *Exec) nilDeref(what string) {
	ex.oblige("nil-deref", "", ex.tb().True(), what)
	panic(pathEnd{kind: endPanic, msg: "nil dereference"})
}

func (ex *Exec) loadPath(o *Obj, path []int) Value {
	v := o.V
	for _, i := range path {
		switch s := v.(type) {
		case *Struct:
			v = s.F[i]
		default:
			ex.fail("bad pointer path through %T", v)
		}
	}
	return v
}

// selectable: every element is a scalar term or a concrete string.
func selectable(elems []*Obj) bool {
	for _, o := range elems {
		switch v := o.V.(type) {
		case *smt.Term:
		case *Str:
			if v.K != strConc {
				return false
			}
		default:
			return false
		}
	}
	return true
}

// selLoad: the value of a[i] for symbolic i as a case distinction.
func (ex *Exec) selLoad(p SelPtr) Value {
	tb := ex.tb()
	w := p.Idx.S.W
	if _, isTerm := p.Elems[0].V.(*smt.Term); isTerm {
		res := p.Elems[len(p.Elems)-1].V.(*smt.Term)
		for k := len(p.Elems) - 2; k >= 0; k-- {
			res = tb.Ite(tb.Eq(p.Idx, tb.Const(uint64(k), w)), p.Elems[k].V.(*smt.Term), res)
		}
		return res
	}
	// concrete strings: a byte sequence whose length and bytes are case distinctions
	maxLen := 0
	for _, o := range p.Elems {
		if n := len(o.V.(*Str).C); n > maxLen {
			maxLen = n
		}
	}
	sel := func(f func(s string) *smt.Term) *smt.Term {
		res := f(p.Elems[len(p.Elems)-1].V.(*Str).C)
		for k := len(p.Elems) - 2; k >= 0; k-- {
			res = tb.Ite(tb.Eq(p.Idx, tb.Const(uint64(k), w)), f(p.Elems[k].V.(*Str).C), res)
		}
		return res
	}
	ln := sel(func(s string) *smt.Term { return ex.c64(uint64(len(s))) })
	bo := ex.newByteObjZero(ex.c64(uint64(maxLen)))
	for j := 0; j < maxLen; j++ {
		jj := j
		ex.storeByte(bo, ex.c64(uint64(j)), sel(func(s string) *smt.Term {
			if jj < len(s) {
				return tb.Const(uint64(s[jj]), 8)
			}
			return tb.Const(0, 8)
		}))
	}
	return &Str{K: strSeq, Snap: bo.snapshot(), Off: ex.c64(0), Len: ln}
}

func (ex *Exec) load(p Value) Value {
	if sp, ok := p.(SelPtr); ok {
		return ex.selLoad(sp)
	}
	switch p := p.(type) {
	case Ptr:
		if p.Obj == nil {
			ex.nilDeref("load through nil pointer")
		}
		return ex.copyOut(ex.loadPath(p.Obj, p.Path))
	case BytePtr:
		return ex.readByte(p.BO, p.Idx)
	}
	ex.fail("load through %T", p)
	return nil
}

// copyOut gives value semantics to arrays embedded in loaded values.
func (ex *Exec) copyOut(v Value) Value {
	switch a := v.(type) {
	case ByteArr:
		n := ex.newByteObjZero(a.BO.Cap)
		ex.bulkCopy(n, ex.c64(0), a.BO.snapshot(), ex.c64(0), a.BO.Cap)
		return ByteArr{BO: n}
	case *Struct:
		var out *Struct
		for i, f := range a.F {
			switch f.(type) {
			case ByteArr, *Struct, *GArr:
				nf := ex.copyOut(f)
				if nf != f {
					if out == nil {
						out = &Struct{F: append([]Value(nil), a.F...)}
					}
					out.F[i] = nf
				}
			}
		}
		if out != nil {
			return out
		}
		return a
	case *GArr:
		ex.objSeq++
		vec := &Vec{ID: ex.objSeq, Elems: make([]*Obj, len(a.Vec.Elems))}
		for i, o := range a.Vec.Elems {
			vec.Elems[i] = ex.newObj(o.Typ, ex.copyOut(o.V))
		}
		return &GArr{Vec: vec}
	}
	return v
}

// assignInto merges a new value into an existing location value so that
// byte-array storage keeps its identity (slices of it stay aliased).
func (ex *Exec) assignInto(old, nv Value) Value {
	switch n := nv.(type) {
	case ByteArr:
		if o, ok := old.(ByteArr); ok && o.BO != n.BO {
			ex.bulkCopy(o.BO, ex.c64(0), n.BO.snapshot(), ex.c64(0), o.BO.Cap)
			return o
		}
	case *GArr:
		if o, ok := old.(*GArr); ok && o.Vec != n.Vec && len(o.Vec.Elems) == len(n.Vec.Elems) {
			for i, e := range n.Vec.Elems {
				o.Vec.Elems[i].V = ex.assignInto(o.Vec.Elems[i].V, ex.copyOut(e.V))
			}
			return o
		}
	case *Struct:
		if o, ok := old.(*Struct); ok && len(o.F) == len(n.F) {
			var out *Struct
			for i := range n.F {
				switch n.F[i].(type) {
				case ByteArr, *Struct, *GArr:
					r := ex.assignInto(o.F[i], n.F[i])
					if r != n.F[i] {
						if out == nil {
							out = &Struct{F: append([]Value(nil), n.F...)}
						}
						out.F[i] = r
					}
				}
			}
			if out != nil {
				return out
			}
		}
	}
	return nv
}

func (ex *Exec) storePath(v Value, path []int, nv Value) Value {
	if len(path) == 0 {
		return ex.assignInto(v, nv)
	}
	switch s := v.(type) {
	case *Struct:
		out := &Struct{F: append([]Value(nil), s.F...)}
		out.F[path[0]] = ex.storePath(s.F[path[0]], path[1:], nv)
		return out
	}
	ex.fail("bad pointer path through %T on store", v)
	return nil
}

func (ex *Exec) checkWritable(frozen bool, id int, what string) {
	if frozen {
		ex.oblige("frozen-write", "", ex.tb().True(), what)
	}
	if n := len(ex.mergeMarks); n > 0 && id <= ex.mergeMarks[n-1] {
		panic(mergeImpure{what: what})
	}
}

// syncEnter / syncLeave bracket a synchronised region (sync.Once.Do, sync.Mutex.Lock .. Unlock):
// package-level memory frozen by FreezeGlobals may be written there - that is what the
// synchronisation is for. Memory frozen by vp.Freeze (quote, input, options) stays frozen.
func (ex *Exec) syncEnter() {
	ex.syncDepth++
	if ex.syncDepth == 1 {
		ex.setSoftFrozen(false)
	}
}

func (ex *Exec) syncLeave() {
	if ex.syncDepth == 0 {
		return
	}
	ex.syncDepth--
	if ex.syncDepth == 0 {
		ex.setSoftFrozen(true)
	}
}

func (ex *Exec) setSoftFrozen(v bool) {
	for _, x := range ex.softFrozen {
		switch r := x.(type) {
		case *Obj:
			r.Frozen = v
		case *ByteObj:
			r.Frozen = v
		case *Vec:
			r.Frozen = v
		case *Map:
			r.Frozen = v
		}
	}
}

// mergeImpure: a callee on the merge list turned out to write to memory that existed before
// the call; the merged exploration is abandoned and the call is executed as an ordinary call.
type mergeImpure struct{ what string }

func (ex *Exec) store(p Value, nv Value) {
	if sp, ok := p.(SelPtr); ok {
		k := ex.concretize(sp.Idx, 1024, "index of a store into an array")
		p = Ptr{Obj: sp.Elems[k]}
	}
	switch p := p.(type) {
	case Ptr:
		if p.Obj == nil {
			ex.nilDeref("store through nil pointer")
		}
		ex.checkWritable(p.Obj.Frozen, p.Obj.ID, "store to "+p.Obj.describe())
		p.Obj.V = ex.storePath(p.Obj.V, p.Path, nv)
		return
	case BytePtr:
		ex.writeByte(p.BO, p.Idx, ex.term(nv))
		return
	}
	ex.fail("store through %T", p)
}

func (o *Obj) describe() string {
	if o.Name != "" {
		return o.Name
	}
	return fmt.Sprintf("object#%d of type %s", o.ID, o.Typ)
}

func (ex *Exec) writeByte(bo *ByteObj, idx, val *smt.Term) {
	if bo.Frozen {
		ex.oblige("frozen-write", "", ex.tb().True(), "byte store into frozen "+bo.describe())
		return
	}
	if n := len(ex.mergeMarks); n > 0 && bo.ID <= ex.mergeMarks[n-1] {
		panic(mergeImpure{what: "byte store"})
	}
	ex.storeByte(bo, idx, val)
}

func (bo *ByteObj) describe() string {
	if bo.Name != "" {
		return "bytes " + bo.Name
	}
	return fmt.Sprintf("bytes#%d", bo.ID)
}

func (ex *Exec) writeRange(bo *ByteObj, dstOff *smt.Term, src *logNode, srcOff, n *smt.Term, what string) {
	if n.IsConst() && n.Uint64() == 0 {
		return
	}
	if bo.Frozen {
		// writing zero bytes is not a write
		bad := ex.tb().Not(ex.tb().Eq(n, ex.c64(0)))
		ex.oblige("frozen-write", "", bad, what+" into frozen "+bo.describe())
		return
	}
	if m := len(ex.mergeMarks); m > 0 && bo.ID <= ex.mergeMarks[m-1] {
		panic(mergeImpure{what: what})
	}
	ex.bulkCopy(bo, dstOff, src, srcOff, n)
}

// ---- function calls ----

func (ex *Exec) callFunc(fn *ssa.Function, args []Value, env []Value, site ssa.Instruction) Value {
	if len(ex.frames) > 400 {
		ex.fail("call depth exceeded")
	}
	if fn.Blocks == nil {
		ex.fail("UNMODELLED callee %s (no body)", fn)
	}
	vi := ex.eng.valueIndex(fn)
	f := &frame{fn: fn, idx: vi, env: make([]Value, len(vi)), set: make([]bool, len(vi)), site: site}
	if len(args) != len(fn.Params) {
		ex.fail("call of %s with %d args, want %d", fn, len(args), len(fn.Params))
	}
	for i, p := range fn.Params {
		f.def(p, args[i])
	}
	for i, fv := range fn.FreeVars {
		f.def(fv, env[i])
	}
	ex.frames = append(ex.frames, f)
	depth := len(ex.frames)
	defer func() { ex.frames = ex.frames[:depth-1] }()
	name := fn.String()
	rep := ex.eng.rep
	block := fn.Blocks[0]
	var prev *ssa.BasicBlock
	for {
		next, ret, done := ex.runBlock(f, block, prev, name, rep)
		if done {
			return ret
		}
		prev, block = block, next
	}
}

func (ex *Exec) runDefers(f *frame) {
	for len(f.defers) > 0 {
		d := f.defers[len(f.defers)-1]
		f.defers = f.defers[:len(f.defers)-1]
		d()
	}
}

func (ex *Exec) runBlock(f *frame, b *ssa.BasicBlock, prev *ssa.BasicBlock, name string, rep *Report) (*ssa.BasicBlock, Value, bool) {
	tb := ex.tb()
	for _, ins := range b.Instrs {
		ex.steps++
		if ex.steps > int64(ex.eng.Cfg.MaxSteps) {
			ex.fail("step budget exhausted")
		}
		rep.FuncInstrs[name]++
		ex.curInstr = ins
		switch ins := ins.(type) {
		case *ssa.DebugRef:
		case *ssa.Phi:
			for i, p := range b.Preds {
				if p == prev {
					f.def(ins, ex.get(f, ins.Edges[i]))
					break
				}
			}
		case *ssa.Alloc:
			elem := ins.Type().(*types.Pointer).Elem()
			o := ex.newObj(elem, ex.zero(elem))
			if ins.Comment != "" {
				o.Name = ins.Comment + " in " + f.fn.Name()
			}
			f.def(ins, Ptr{Obj: o})
		case *ssa.UnOp:
			f.def(ins, ex.unop(f, ins))
		case *ssa.BinOp:
			f.def(ins, ex.binop(ins.Op, ex.get(f, ins.X), ex.get(f, ins.Y), ins.X.Type(), ins.Y.Type()))
		case *ssa.Store:
			ex.store(ex.get(f, ins.Addr), ex.get(f, ins.Val))
		case *ssa.FieldAddr:
			p, ok := ex.get(f, ins.X).(Ptr)
			if !ok {
				ex.fail("FieldAddr on %T", ex.get(f, ins.X))
			}
			if p.Obj == nil {
				ex.nilDeref(fmt.Sprintf("field %s of nil %s", fieldName(ins.X.Type(), ins.Field), ins.X.Type()))
			}
			np := make([]int, len(p.Path)+1)
			copy(np, p.Path)
			np[len(p.Path)] = ins.Field
			f.def(ins, Ptr{Obj: p.Obj, Path: np})
		case *ssa.Field:
			s, ok := ex.get(f, ins.X).(*Struct)
			if !ok {
				ex.fail("Field on %T", ex.get(f, ins.X))
			}
			f.def(ins, s.F[ins.Field])
		case *ssa.IndexAddr:
			f.def(ins, ex.indexAddr(ex.get(f, ins.X), ex.get(f, ins.Index), ins.X.Type(), ins.Index.Type()))
		case *ssa.Index:
			f.def(ins, ex.index(ex.get(f, ins.X), ex.get(f, ins.Index), ins.Index.Type()))
		case *ssa.Lookup:
			f.def(ins, ex.lookup(ex.get(f, ins.X), ex.get(f, ins.Index), ins))
		case *ssa.Slice:
			var lo, hi, max Value
			if ins.Low != nil {
				lo = ex.get(f, ins.Low)
			}
			if ins.High != nil {
				hi = ex.get(f, ins.High)
			}
			if ins.Max != nil {
				max = ex.get(f, ins.Max)
			}
			f.def(ins, ex.slice(ex.get(f, ins.X), lo, hi, max, ins))
		case *ssa.MakeSlice:
			f.def(ins, ex.makeSlice(ins.Type(), ex.toInt64Term(ex.get(f, ins.Len), ins.Len.Type()), ex.toInt64Term(ex.get(f, ins.Cap), ins.Cap.Type())))
		case *ssa.MakeMap:
			ex.objSeq++
			f.def(ins, &Map{ID: ex.objSeq, M: map[string]Value{}})
		case *ssa.MapUpdate:
			m, _ := ex.get(f, ins.Map).(*Map)
			if m == nil {
				ex.oblige("nil-map-store", "", tb.True(), "assignment to entry in nil map")
				panic(pathEnd{kind: endPanic})
			}
			ex.checkWritable(m.Frozen, m.ID, "map update")
			k := ex.mapKey(ex.get(f, ins.Key))
			if _, ok := m.M[k]; !ok {
				m.Keys = append(m.Keys, k)
			}
			m.M[k] = ex.get(f, ins.Value)
		case *ssa.MakeInterface:
			f.def(ins, &Iface{Typ: ins.X.Type(), V: ex.get(f, ins.X)})
		case *ssa.ChangeInterface:
			f.def(ins, ex.get(f, ins.X))
		case *ssa.ChangeType:
			f.def(ins, ex.get(f, ins.X))
		case *ssa.Convert:
			f.def(ins, ex.convert(ex.get(f, ins.X), ins.X.Type(), ins.Type()))
		case *ssa.SliceToArrayPointer:
			f.def(ins, ex.sliceToArrayPtr(ex.get(f, ins.X), ins.Type()))
		case *ssa.TypeAssert:
			f.def(ins, ex.typeAssert(ex.get(f, ins.X), ins))
		case *ssa.Extract:
			f.def(ins, ex.get(f, ins.Tuple).(Tuple)[ins.Index])
		case *ssa.MakeClosure:
			fn := ins.Fn.(*ssa.Function)
			env := make([]Value, len(ins.Bindings))
			for i, b := range ins.Bindings {
				env[i] = ex.get(f, b)
			}
			f.def(ins, &Func{Fn: fn, Env: env})
		case *ssa.Call:
			f.def(ins, ex.doCall(f, &ins.Call, ins))
		case *ssa.Defer:
			call := ins.Call
			// evaluate operands now, run later
			fv, args := ex.prepareCall(f, &call)
			f.defers = append(f.defers, func() { ex.invoke(fv, args, ins) })
		case *ssa.RunDefers:
			ex.runDefers(f)
		case *ssa.Go:
			ex.fail("go statement is not supported")
		case *ssa.Send:
			ex.fail("channel send is not supported")
		case *ssa.Select:
			f.def(ins, ex.selectInstr(f, ins))
		case *ssa.Range:
			f.def(ins, ex.rangeInit(ex.get(f, ins.X)))
		case *ssa.Next:
			f.def(ins, ex.rangeNext(ex.get(f, ins.Iter), ins))
		case *ssa.MakeChan:
			ex.fail("make(chan) is not supported")
		case *ssa.Jump:
			return b.Succs[0], nil, false
		case *ssa.If:
			c := ex.term(ex.get(f, ins.Cond))
			if ex.branch(c, ins) {
				return b.Succs[0], nil, false
			}
			return b.Succs[1], nil, false
		case *ssa.Return:
			var ret Value
			switch len(ins.Results) {
			case 0:
			case 1:
				ret = ex.get(f, ins.Results[0])
			default:
				t := make(Tuple, len(ins.Results))
				for i, r := range ins.Results {
					t[i] = ex.get(f, r)
				}
				ret = t
			}
			return nil, ret, true
		case *ssa.Panic:
			v := ex.get(f, ins.X)
			ex.oblige("panic", "", tb.True(), "explicit panic: "+ex.describeValue(v))
			ex.runDefers(f)
			panic(pathEnd{kind: endPanic, msg: "explicit panic"})
		default:
			ex.fail("unsupported SSA instruction %T", ins)
		}
	}
	ex.fail("block without terminator")
	return nil, nil, true
}

func fieldName(t types.Type, i int) string {
	if p, ok := t.Underlying().(*types.Pointer); ok {
		if s, ok := p.Elem().Underlying().(*types.Struct); ok && i < s.NumFields() {
			return s.Field(i).Name()
		}
	}
	return fmt.Sprint(i)
}

func (ex *Exec) describeValue(v Value) string {
	switch x := v.(type) {
	case *Iface:
		if x == nil {
			return "nil"
		}
		return fmt.Sprintf("%s(%s)", x.Typ, ex.describeValue(x.V))
	case *Str:
		return x.String()
	case *smt.Term:
		return x.String()
	}
	return fmt.Sprintf("%T", v)
}

// ---- unary / binary operators ----

func (ex *Exec) unop(f *frame, ins *ssa.UnOp) Value {
	tb := ex.tb()
	x := ex.get(f, ins.X)
	switch ins.Op {
	case token.MUL:
		return ex.load(x)
	case token.NOT:
		return tb.Not(ex.term(x))
	case token.SUB:
		return tb.Neg(ex.term(x))
	case token.XOR:
		return tb.BNot(ex.term(x))
	case token.ARROW:
		return ex.chanRecv(x, ins.CommaOk)
	}
	ex.fail("unsupported unary operator %s", ins.Op)
	return nil
}

func (ex *Exec) toInt64Term(v Value, t types.Type) *smt.Term {
	x := ex.term(v)
	w, signed, ok := typeWidth(t)
	if !ok {
		ex.fail("integer expected, got %s", t)
	}
	if w == 64 {
		return x
	}
	if signed {
		return ex.tb().Sext(x, 64)
	}
	return ex.widen(x, 64)
}

func (ex *Exec) binop(op token.Token, x, y Value, xt, yt types.Type) Value {
	tb := ex.tb()
	switch a := x.(type) {
	case *smt.Term:
		b, ok := y.(*smt.Term)
		if !ok {
			ex.fail("binop %s on scalar and %T", op, y)
		}
		if a.S.K == smt.KBool {
			switch op {
			case token.EQL:
				return tb.Eq(a, b)
			case token.NEQ:
				return tb.Not(tb.Eq(a, b))
			case token.AND, token.LAND:
				return tb.And(a, b)
			case token.OR, token.LOR:
				return tb.Or(a, b)
			}
			ex.fail("unsupported bool operator %s", op)
		}
		_, signed, _ := typeWidth(xt)
		switch op {
		case token.ADD:
			return tb.Add(a, b)
		case token.SUB:
			return tb.Sub(a, b)
		case token.MUL:
			return tb.Mul(a, b)
		case token.QUO, token.REM:
			ex.oblige("div-by-zero", "", tb.Eq(b, tb.Const(0, b.S.W)), "integer division by zero")
			if op == token.QUO {
				if signed {
					return tb.SDiv(a, b)
				}
				return tb.UDiv(a, b)
			}
			if signed {
				return tb.SRem(a, b)
			}
			return tb.URem(a, b)
		case token.AND:
			return tb.BAnd(a, b)
		case token.OR:
			return tb.BOr(a, b)
		case token.XOR:
			return tb.BXor(a, b)
		case token.AND_NOT:
			return tb.BAnd(a, tb.BNot(b))
		case token.SHL, token.SHR:
			return ex.shift(op, a, b, signed, yt)
		case token.EQL:
			return tb.Eq(a, b)
		case token.NEQ:
			return tb.Not(tb.Eq(a, b))
		case token.LSS:
			if signed {
				return tb.Slt(a, b)
			}
			return tb.Ult(a, b)
		case token.LEQ:
			if signed {
				return tb.Sle(a, b)
			}
			return tb.Ule(a, b)
		case token.GTR:
			if signed {
				return tb.Slt(b, a)
			}
			return tb.Ult(b, a)
		case token.GEQ:
			if signed {
				return tb.Sle(b, a)
			}
			return tb.Ule(b, a)
		}
		ex.fail("unsupported integer operator %s", op)
	case *Str:
		b, ok := y.(*Str)
		if !ok {
			ex.fail("binop %s on string and %T", op, y)
		}
		switch op {
		case token.ADD:
			return ex.strConcat(a, b)
		case token.EQL:
			return ex.strEq(a, b)
		case token.NEQ:
			return tb.Not(ex.strEq(a, b))
		case token.LSS, token.LEQ, token.GTR, token.GEQ:
			if a.K == strConc && b.K == strConc {
				switch op {
				case token.LSS:
					return tb.Bool(a.C < b.C)
				case token.LEQ:
					return tb.Bool(a.C <= b.C)
				case token.GTR:
					return tb.Bool(a.C > b.C)
				default:
					return tb.Bool(a.C >= b.C)
				}
			}
		}
		ex.fail("unsupported string operator %s on symbolic strings", op)
	}
	if op == token.EQL || op == token.NEQ {
		eq := ex.valueEq(x, y)
		if op == token.NEQ {
			return tb.Not(eq)
		}
		return eq
	}
	ex.fail("unsupported operator %s on %T", op, x)
	return nil
}

func (ex *Exec) shift(op token.Token, a, b *smt.Term, signed bool, yt types.Type) *smt.Term {
	tb := ex.tb()
	w := a.S.W
	_, ysigned, _ := typeWidth(yt)
	if ysigned {
		ex.oblige("negative-shift", "", tb.Slt(b, tb.Const(0, b.S.W)), "negative shift amount")
	}
	var cnt *smt.Term
	var over *smt.Term // shift count >= 2^w representable range
	if b.S.W <= w {
		cnt = tb.Zext(b, w)
		over = tb.False()
	} else {
		cnt = tb.Extract(b, w-1, 0)
		over = tb.Not(tb.Eq(tb.Extract(b, b.S.W-1, w), tb.Const(0, b.S.W-w)))
	}
	var r, ov *smt.Term
	switch {
	case op == token.SHL:
		r, ov = tb.Shl(a, cnt), tb.Const(0, w)
	case signed:
		r, ov = tb.Ashr(a, cnt), tb.Ashr(a, tb.Const(uint64(w-1), w))
	default:
		r, ov = tb.Lshr(a, cnt), tb.Const(0, w)
	}
	return tb.Ite(over, ov, r)
}

// valueEq is == on non-scalar comparable values.
func (ex *Exec) valueEq(x, y Value) *smt.Term {
	tb := ex.tb()
	switch a := x.(type) {
	case nil:
		return tb.Bool(ex.isNilValue(y))
	case Ptr:
		switch b := y.(type) {
		case Ptr:
			if a.Obj != b.Obj || len(a.Path) != len(b.Path) {
				return tb.False()
			}
			for i := range a.Path {
				if a.Path[i] != b.Path[i] {
					return tb.False()
				}
			}
			return tb.True()
		case nil:
			return tb.Bool(a.Obj == nil)
		}
	case BytePtr:
		if b, ok := y.(BytePtr); ok {
			if a.BO != b.BO {
				return tb.False()
			}
			return tb.Eq(a.Idx, b.Idx)
		}
		if p, ok := y.(Ptr); ok && p.Obj == nil {
			return tb.False()
		}
	case Bytes:
		if b, ok := y.(Bytes); ok {
			if b.BO == nil {
				return tb.Bool(a.BO == nil)
			}
			if a.BO == nil {
				return tb.False()
			}
		}
		if y == nil {
			return tb.Bool(a.BO == nil)
		}
	case *GSlice:
		if b, ok := y.(*GSlice); ok {
			if b.IsNil() {
				return tb.Bool(a.IsNil())
			}
			if a.IsNil() {
				return tb.False()
			}
		}
		if y == nil {
			return tb.Bool(a.IsNil())
		}
	case *Map:
		if b, ok := y.(*Map); ok && (a == nil || b == nil) {
			return tb.Bool(a == nil && b == nil)
		}
	case *Func:
		if b, ok := y.(*Func); ok && (a == nil || b == nil) {
			return tb.Bool(a == nil && b == nil)
		}
	case *Chan:
		if b, ok := y.(*Chan); ok {
			return tb.Bool(a == b)
		}
	case *Iface:
		b, ok := y.(*Iface)
		if !ok && y != nil {
			break
		}
		return ex.ifaceEq(a, b)
	case *Struct:
		if b, ok := y.(*Struct); ok && len(a.F) == len(b.F) {
			var cs []*smt.Term
			for i := range a.F {
				cs = append(cs, ex.anyEq(a.F[i], b.F[i]))
			}
			return tb.And(cs...)
		}
	case ByteArr:
		if b, ok := y.(ByteArr); ok {
			return ex.seqEq(a.BO.head, ex.c64(0), a.BO.Cap, b.BO.head, ex.c64(0), b.BO.Cap)
		}
	case *GArr:
		if b, ok := y.(*GArr); ok && len(a.Vec.Elems) == len(b.Vec.Elems) {
			var cs []*smt.Term
			for i := range a.Vec.Elems {
				cs = append(cs, ex.anyEq(a.Vec.Elems[i].V, b.Vec.Elems[i].V))
			}
			return tb.And(cs...)
		}
	}
	ex.fail("unsupported comparison of %T and %T", x, y)
	return nil
}

func (ex *Exec) anyEq(x, y Value) *smt.Term {
	switch a := x.(type) {
	case *smt.Term:
		return ex.tb().Eq(a, ex.term(y))
	case *Str:
		return ex.strEq(a, y.(*Str))
	}
	return ex.valueEq(x, y)
}

func (ex *Exec) isNilValue(v Value) bool {
	switch a := v.(type) {
	case nil:
		return true
	case Ptr:
		return a.Obj == nil
	case Bytes:
		return a.BO == nil
	case *GSlice:
		return a.IsNil()
	case *Map:
		return a == nil
	case *Func:
		return a == nil
	case *Iface:
		return a == nil
	case *Chan:
		return a == nil
	}
	return false
}

// ifaceNil returns the term "interface value is nil".
func (ex *Exec) ifaceNil(a *Iface) *smt.Term {
	if a == nil {
		return ex.tb().True()
	}
	if a.NilC != nil {
		return a.NilC
	}
	return ex.tb().False()
}

func (ex *Exec) ifaceEq(a, b *Iface) *smt.Term {
	tb := ex.tb()
	if a == nil {
		return ex.ifaceNil(b)
	}
	if b == nil {
		return ex.ifaceNil(a)
	}
	if a.NilC != nil || b.NilC != nil {
		// both nil, or both non-nil and equal
		both := tb.And(ex.ifaceNil(a), ex.ifaceNil(b))
		if a == b {
			return tb.True()
		}
		if !types.Identical(a.Typ, b.Typ) {
			return both
		}
		return tb.Or(both, tb.And(tb.Not(ex.ifaceNil(a)), tb.Not(ex.ifaceNil(b)), ex.anyEq(a.V, b.V)))
	}
	if !types.Identical(a.Typ, b.Typ) {
		return tb.False()
	}
	return ex.anyEq(a.V, b.V)
}

// ---- indexing and slicing ----

func (ex *Exec) idxTerm(v Value, t types.Type) *smt.Term { return ex.toInt64Term(v, t) }

func (ex *Exec) boundsCheck(idx, n *smt.Term, what string) {
	tb := ex.tb()
	bad := tb.Or(tb.Slt(idx, ex.c64(0)), tb.Sle(n, idx))
	ex.oblige("index-out-of-range", "", bad, what)
}

func (ex *Exec) indexAddr(x, idx Value, xt, it types.Type) Value {
	i := ex.idxTerm(idx, it)
	switch a := x.(type) {
	case Bytes:
		ex.boundsCheck(i, a.lenOrZero(ex), "index of []byte")
		if a.BO == nil {
			panic(pathEnd{kind: endPanic})
		}
		return BytePtr{BO: a.BO, Idx: ex.tb().Add(a.Off, i)}
	case *GSlice:
		n := 0
		if a != nil {
			n = a.Len
		}
		ex.boundsCheck(i, ex.c64(uint64(n)), "index of slice")
		if !i.IsConst() && n > 1 && n <= 1024 && selectable(a.Vec.Elems[a.Off:a.Off+n]) {
			return SelPtr{Elems: a.Vec.Elems[a.Off : a.Off+n], Idx: i}
		}
		k := ex.concretize(i, 64, "slice index")
		return Ptr{Obj: a.Vec.Elems[a.Off+int(k)]}
	case Ptr:
		if a.Obj == nil {
			ex.nilDeref("index of nil array pointer")
		}
		switch arr := ex.loadPath(a.Obj, a.Path).(type) {
		case ByteArr:
			ex.boundsCheck(i, arr.BO.Cap, "index of byte array")
			return BytePtr{BO: arr.BO, Idx: i}
		case *GArr:
			ex.boundsCheck(i, ex.c64(uint64(len(arr.Vec.Elems))), "index of array")
			if !i.IsConst() && len(arr.Vec.Elems) > 1 && len(arr.Vec.Elems) <= 1024 && selectable(arr.Vec.Elems) {
				return SelPtr{Elems: arr.Vec.Elems, Idx: i}
			}
			k := ex.concretize(i, 64, "array index")
			return Ptr{Obj: arr.Vec.Elems[k]}
		}
	}
	ex.fail("IndexAddr on %T", x)
	return nil
}

func (b Bytes) lenOrZero(ex *Exec) *smt.Term {
	if b.BO == nil {
		return ex.c64(0)
	}
	return b.Len
}

func (ex *Exec) index(x, idx Value, it types.Type) Value {
	i := ex.idxTerm(idx, it)
	switch a := x.(type) {
	case ByteArr:
		ex.boundsCheck(i, a.BO.Cap, "index of byte array")
		return ex.readByte(a.BO, i)
	case *GArr:
		ex.boundsCheck(i, ex.c64(uint64(len(a.Vec.Elems))), "index of array")
		if !i.IsConst() && len(a.Vec.Elems) > 1 && len(a.Vec.Elems) <= 1024 && selectable(a.Vec.Elems) {
			return ex.selLoad(SelPtr{Elems: a.Vec.Elems, Idx: i})
		}
		k := ex.concretize(i, 64, "array index")
		return a.Vec.Elems[k].V
	case *Str:
		return ex.strIndex(a, i)
	}
	ex.fail("Index on %T", x)
	return nil
}

// resolveKey finds the entry a (possibly symbolic) key denotes: a symbolic key is
// compared with the map's keys one by one, forking on each comparison.
func (ex *Exec) resolveKey(m *Map, k Value) (string, bool) {
	symbolic := false
	switch a := k.(type) {
	case *Str:
		symbolic = a.K != strConc
	case *smt.Term:
		symbolic = !a.IsConst()
	}
	if !symbolic {
		ck := ex.mapKey(k)
		_, ok := m.M[ck]
		return ck, ok
	}
	for _, ck := range m.Keys {
		if _, present := m.M[ck]; !present {
			continue
		}
		var eq *smt.Term
		switch a := k.(type) {
		case *Str:
			if !strings.HasPrefix(ck, "s:") {
				continue
			}
			eq = ex.strEq(a, ex.concStr(ck[2:]))
		case *smt.Term:
			if !strings.HasPrefix(ck, "i:") {
				continue
			}
			v, _ := new(big.Int).SetString(ck[2:], 10)
			eq = ex.tb().Eq(a, ex.tb().ConstBig(v, a.S.W))
		}
		if ex.branch(eq, nil) {
			return ck, true
		}
	}
	return "", false
}

func (ex *Exec) mapKey(k Value) string {
	switch a := k.(type) {
	case *Str:
		if a.K == strConc {
			return "s:" + a.C
		}
		ex.fail("map key is a symbolic string")
	case *smt.Term:
		if a.IsConst() {
			return "i:" + a.Val.String()
		}
		ex.fail("map key is a symbolic integer")
	}
	ex.fail("unsupported map key type %T", k)
	return ""
}

func (ex *Exec) lookup(x, idx Value, ins *ssa.Lookup) Value {
	switch a := x.(type) {
	case *Str:
		return ex.strIndex(a, ex.idxTerm(idx, ins.Index.Type()))
	case *Map:
		var v Value
		ok := false
		if a != nil {
			if k, found := ex.resolveKey(a, idx); found {
				v, ok = a.M[k]
			}
		}
		if !ok {
			v = ex.zero(ins.X.Type().Underlying().(*types.Map).Elem())
		}
		if ins.CommaOk {
			return Tuple{v, ex.tb().Bool(ok)}
		}
		return v
	}
	ex.fail("Lookup on %T", x)
	return nil
}

func (ex *Exec) slice(x, lo, hi, max Value, ins *ssa.Slice) Value {
	tb := ex.tb()
	toT := func(v Value, sv ssa.Value) *smt.Term {
		if v == nil {
			return nil
		}
		return ex.toInt64Term(v, sv.Type())
	}
	l, h, m := toT(lo, ins.Low), toT(hi, ins.High), toT(max, ins.Max)
	zero := ex.c64(0)
	if l == nil {
		l = zero
	}
	chk := func(l, h, m, cap *smt.Term, what string) {
		// 0 <= l <= h <= m <= cap (signed)
		bad := tb.Or(tb.Slt(l, zero), tb.Slt(h, l), tb.Slt(m, h), tb.Slt(cap, m))
		ex.oblige("slice-bounds", "", bad, what)
	}
	switch a := x.(type) {
	case Bytes:
		if a.BO == nil {
			if h == nil {
				h = zero
			}
			if m == nil {
				m = zero
			}
			chk(l, h, m, zero, "slice of nil []byte")
			return Bytes{}
		}
		if h == nil {
			h = a.Len
		}
		if m == nil {
			m = a.Cap
		}
		chk(l, h, m, a.Cap, "slice of []byte")
		return Bytes{BO: a.BO, Off: ex.nz(tb.Add(a.Off, l)), Len: ex.nz(tb.Sub(h, l)), Cap: ex.nz(tb.Sub(m, l))}
	case *Str:
		n := ex.strLen(a)
		if h == nil {
			h = n
		}
		chk(l, h, h, n, "slice of string")
		return ex.strSlice(a, l, h)
	case *GSlice:
		ln, cp := 0, 0
		if a != nil {
			ln, cp = a.Len, a.Cap
		}
		if h == nil {
			h = ex.c64(uint64(ln))
		}
		if m == nil {
			m = ex.c64(uint64(cp))
		}
		chk(l, h, m, ex.c64(uint64(cp)), "slice of slice")
		li, hi2, mi := int(ex.concretize(l, 64, "slice bound")), int(ex.concretize(h, 64, "slice bound")), int(ex.concretize(m, 64, "slice bound"))
		if a.IsNil() {
			return (*GSlice)(nil)
		}
		return &GSlice{Vec: a.Vec, Off: a.Off + li, Len: hi2 - li, Cap: mi - li}
	case Ptr:
		if a.Obj == nil {
			ex.nilDeref("slice of nil array pointer")
		}
		switch arr := ex.loadPath(a.Obj, a.Path).(type) {
		case ByteArr:
			if h == nil {
				h = arr.BO.Cap
			}
			if m == nil {
				m = arr.BO.Cap
			}
			chk(l, h, m, arr.BO.Cap, "slice of byte array")
			if a.Obj.Frozen {
				arr.BO.Frozen = true
			}
			return Bytes{BO: arr.BO, Off: l, Len: tb.Sub(h, l), Cap: tb.Sub(m, l)}
		case *GArr:
			n := len(arr.Vec.Elems)
			if h == nil {
				h = ex.c64(uint64(n))
			}
			if m == nil {
				m = ex.c64(uint64(n))
			}
			chk(l, h, m, ex.c64(uint64(n)), "slice of array")
			li, hi2, mi := int(ex.concretize(l, 64, "slice bound")), int(ex.concretize(h, 64, "slice bound")), int(ex.concretize(m, 64, "slice bound"))
			return &GSlice{Vec: arr.Vec, Off: li, Len: hi2 - li, Cap: mi - li}
		}
	}
	ex.fail("Slice on %T", x)
	return nil
}

func (ex *Exec) makeSlice(t types.Type, n, c *smt.Term) Value {
	tb := ex.tb()
	bad := tb.Or(tb.Slt(n, ex.c64(0)), tb.Slt(c, n), tb.Slt(ex.c64(1<<47), c))
	ex.oblige("makeslice", "", bad, "makeslice: len out of range")
	st := t.Underlying().(*types.Slice)
	if isByteType(st.Elem()) {
		bo := ex.newByteObjZero(c)
		return Bytes{BO: bo, Off: ex.c64(0), Len: n, Cap: c}
	}
	ni := int(ex.concretize(n, 32, "make length"))
	ci := int(ex.concretize(c, 32, "make capacity"))
	if ci > 1<<16 {
		ex.fail("make of %d-element slice", ci)
	}
	ex.objSeq++
	v := &Vec{ID: ex.objSeq, Elems: make([]*Obj, ci)}
	for i := range v.Elems {
		v.Elems[i] = ex.newObj(st.Elem(), ex.zero(st.Elem()))
	}
	return &GSlice{Vec: v, Len: ni, Cap: ci}
}

func (ex *Exec) sliceToArrayPtr(x Value, t types.Type) Value {
	ex.fail("slice to array pointer conversion is not supported")
	return nil
}

// ---- conversions ----

func (ex *Exec) convert(x Value, from, to types.Type) Value {
	tb := ex.tb()
	fw, fsigned, fok := typeWidth(from)
	tw, _, tok := typeWidth(to)
	if fok && tok {
		a := ex.term(x)
		switch {
		case tw == fw:
			return a
		case tw < fw:
			return tb.Extract(a, tw-1, 0)
		case fsigned:
			return tb.Sext(a, tw)
		default:
			return ex.widen(a, tw)
		}
	}
	fu, tu := from.Underlying(), to.Underlying()
	if fb, ok := fu.(*types.Basic); ok && fb.Info()&types.IsString != 0 {
		if isByteSlice(to) {
			return ex.strToBytes(x.(*Str))
		}
		if tb2, ok := tu.(*types.Basic); ok && tb2.Info()&types.IsString != 0 {
			return x
		}
	}
	if isByteSlice(from) {
		if tb2, ok := tu.(*types.Basic); ok && tb2.Info()&types.IsString != 0 {
			return ex.bytesToStr(x.(Bytes))
		}
	}
	if fok {
		if tb2, ok := tu.(*types.Basic); ok && tb2.Info()&types.IsString != 0 {
			a := ex.term(x)
			if a.IsConst() {
				return &Str{K: strConc, C: string(rune(a.Int64()))}
			}
		}
		if tb2, ok := tu.(*types.Basic); ok && tb2.Kind() == types.UnsafePointer {
			return Ptr{}
		}
		if tb2, ok := tu.(*types.Basic); ok && tb2.Info()&types.IsFloat != 0 {
			return tb.Zext(ex.term(x), 64)
		}
	}
	if fb, ok := fu.(*types.Basic); ok && fb.Kind() == types.UnsafePointer {
		ex.fail("conversion from unsafe.Pointer")
	}
	if tb2, ok := tu.(*types.Basic); ok && tb2.Kind() == types.UnsafePointer {
		ex.fail("conversion to unsafe.Pointer")
	}
	if fb, ok := fu.(*types.Basic); ok && fb.Info()&types.IsFloat != 0 && tok {
		return tb.Extract(ex.term(x), tw-1, 0)
	}
	ex.fail("unsupported conversion %s -> %s", from, to)
	return nil
}

// ---- type assertions ----

func (ex *Exec) typeAssert(x Value, ins *ssa.TypeAssert) Value {
	tb := ex.tb()
	a, _ := x.(*Iface)
	if a != nil && a.NilC != nil {
		// symbolic nil-ness: decide it
		if ex.branch(a.NilC, nil) {
			a = nil
		} else {
			a = &Iface{Typ: a.Typ, V: a.V}
		}
	}
	ok := false
	var res Value
	if a != nil {
		if types.IsInterface(ins.AssertedType) {
			it := ins.AssertedType.Underlying().(*types.Interface)
			ok = types.Implements(a.Typ, it)
			if ok {
				res = a
			}
		} else {
			ok = types.Identical(a.Typ, ins.AssertedType)
			if ok {
				res = a.V
			}
		}
	}
	if ins.CommaOk {
		if !ok {
			res = ex.zero(ins.AssertedType)
		}
		return Tuple{res, tb.Bool(ok)}
	}
	if !ok {
		dt := "nil"
		if a != nil {
			dt = a.Typ.String()
		}
		ex.oblige("type-assert", "", tb.True(), fmt.Sprintf("interface conversion: %s is not %s", dt, ins.AssertedType))
		panic(pathEnd{kind: endPanic})
	}
	return res
}

// ---- ranges (maps with concrete keys, concrete strings) ----

type rangeIter struct {
	m    *Map
	keys []string
	pos  int
	s    *Str
}

func (ex *Exec) rangeInit(x Value) Value {
	switch a := x.(type) {
	case *Map:
		it := &rangeIter{m: a}
		if a != nil {
			it.keys = append([]string(nil), a.Keys...)
		}
		return it
	case *Str:
		if a.K != strConc {
			ex.fail("range over symbolic string")
		}
		return &rangeIter{s: a}
	}
	ex.fail("range over %T", x)
	return nil
}

func (ex *Exec) rangeNext(it Value, ins *ssa.Next) Value {
	tb := ex.tb()
	r := it.(*rangeIter)
	if ins.IsString {
		rs := []rune(r.s.C)
		_ = rs
		// iterate bytes as runes only for ASCII strings
		if r.pos >= len(r.s.C) {
			return Tuple{tb.False(), tb.Const(0, 64), tb.Const(0, 32)}
		}
		c := r.s.C[r.pos]
		if c >= 0x80 {
			ex.fail("range over non-ASCII string")
		}
		r.pos++
		return Tuple{tb.True(), tb.Const(uint64(r.pos-1), 64), tb.Const(uint64(c), 32)}
	}
	mt := ins.Iter.(*ssa.Range).X.Type().Underlying().(*types.Map)
	for r.pos < len(r.keys) {
		k := r.keys[r.pos]
		r.pos++
		v, ok := r.m.M[k]
		if !ok {
			continue
		}
		var kv Value
		if k[0] == 's' {
			kv = &Str{K: strConc, C: k[2:]}
		} else {
			w, _, _ := typeWidth(mt.Key())
			n, _ := new(big.Int).SetString(k[2:], 10)
			kv = tb.ConstBig(n, w)
		}
		return Tuple{tb.True(), kv, v}
	}
	return Tuple{tb.False(), ex.zero(mt.Key()), ex.zero(mt.Elem())}
}
