#!/bin/bash
# Re-evaluates every seeded change (or every harmless one) against the quick check of its property.
# usage: [CROSS=1] seeded_all.sh [seeded|benign] [name-regex]
#   CROSS: also run the other properties named in meta.json's detected_by
# Mutates /repo while running (applies each patch, restores it): never run checks concurrently.
# For seeded changes meta.json's detected_by / last_evaluation are rewritten from the result.
kind=${1:-seeded}
sel=${2:-.}
cd /verif
# shorter limits than the registered commands: a changed tree that makes queries hard should say so soon
export VERIF_QUERY_TIMEOUT_MS=${VERIF_QUERY_TIMEOUT_MS:-6000} VERIF_BUDGET=${VERIF_BUDGET:-240}
for d in $(ls $kind | sort | grep -E "$sel"); do
  [ -f $kind/$d/patch.diff ] || continue
  prop=${d:0:3}
  extra=""
  [ -n "$CROSS" ] && [ -f $kind/$d/meta.json ] && extra=$(python3 -c "
import json,re
m=json.load(open('/verif/$kind/$d/meta.json'))
ps=re.findall(r'\bC\d\d\b', str(m.get('detected_by') or ''))
print(' '.join(sorted(set(p for p in ps if p!='$prop'))))")
  res=""
  for p in $prop $extra; do
    out=$(./mutants_eval.sh /verif/$kind/$d/patch.diff $p 2>&1 | grep -E "^(VIOLATION|OK|INCONCLUSIVE|vcheck|APPLY|REPO|  )" | head -2 | cut -c1-260 | tr '\n' ' ')
    res="$res [$p: $out]"
  done
  echo "$d$res"
  if [ "$kind" = seeded ] && [ -f $kind/$d/meta.json ]; then
    python3 - "$kind/$d/meta.json" "$res" <<'PY'
import json,sys,re
p,res=sys.argv[1],sys.argv[2]
m=json.load(open(p))
hits=re.findall(r'\[(C\d\d): VIOLATION property=\S+ replay=\S+\s+(.*?)\]\s*(?=\[C\d\d:|$)', res)
m['last_evaluation']=res.strip()[:600]
if hits:
    m['detected_by']='; '.join('%s: %s' % (c, re.sub(r'\s+\[\].*','',d).strip()[:200]) for c,d in hits)
elif not m.get('detected_by'):
    m['detected_by']=None
json.dump(m,open(p,'w'),indent=1)
PY
  fi
done
