#!/bin/bash
# Re-evaluates every seeded change (and every benign one) against the quick check of its property.
# usage: seeded_all.sh [seeded|benign]   -- mutates /repo while running; do not run checks concurrently
kind=${1:-seeded}
cd /verif
for d in $(ls $kind | sort); do
  [ -f $kind/$d/patch.diff ] || continue
  prop=${d:0:3}
  extra=""
  [ -f $kind/$d/meta.json ] && extra=$(python3 -c "
import json,re
m=json.load(open('/verif/$kind/$d/meta.json'))
ps=re.findall(r'\bC\d\d\b', str(m.get('detected_by') or ''))
print(' '.join(sorted(set(p for p in ps if p!='$prop'))))")
  res=""
  for p in $prop $extra; do
    out=$(./mutants_eval.sh /verif/$kind/$d/patch.diff $p 2>&1 | grep -E "^(VIOLATION|OK|INCONCLUSIVE|vcheck|APPLY|REPO)" | head -1 | cut -c1-60)
    res="$res [$p: $out]"
  done
  echo "$d$res"
done
