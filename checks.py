# Per-property configuration of the gosym checks: which harness groups are
# loaded, which harness functions run in which tier, stated bounds and what is
# outside the claim. Read by vcheck; MANIFEST.json registers `./vcheck <id>`.

CHECKS = {
    "C08": {
        "groups": ["c08"],
        "quick": {"match": "^H08", "budget": 900},
        "thorough": {"match": "^H08", "budget": 3000, "query_timeout_ms": 120000},
        "what": "validate.TdxQuote on a structurally valid quote with every content byte symbolic and every option symbolic jointly "
                "(byte expectations of symbolic length 0..size+2 and symbolic content, RTMR list of 0..5 entries, allowed-MR_TD list of 0..3 "
                "non-empty entries, symbolic SVN minima); asserted: (err == nil) equals the statement's verdict written out independently "
                "(own mask literals), and no implicit panic obligation is feasible",
        "bounds": {"rtmr_entries": "0..5", "any_mr_td_entries": "0..3", "option_length": "0..size+2", "quote": "all field contents symbolic; QE auth data 32 bytes"},
        "outside": ["allowed-MR_TD sets containing empty entries (statement leaves the verdict open)",
                    "verdict for a minimum TEE TCB SVN of wrong length (only 'returns an error or success, no crash' is decided)"],
        "assumptions": ["abi.CheckQuoteV4 is executed for real; logger calls are no-ops", "multierr.Combine returns nil iff all its arguments are nil (native model)"],
    },
    "C09": {
        "groups": ["c09"],
        "quick": {"match": "^H09", "budget": 900, "query_timeout_ms": 60000},
        "thorough": {"match": "^H09", "budget": 3000, "query_timeout_ms": 120000},
        "what": "abi.QuoteToProto / QuoteToAbiBytes / Header-, TdQuoteBody-, EnclaveReportToAbiBytes executed (a) on a byte string of symbolic "
                "total length and content: accepted iff the harness's own v4 layout predicate holds, every parsed field equals the input slice "
                "at the harness's own offset (compared at a symbolic position), and re-serialising reproduces the input at a symbolic index; "
                "(b) on a well-formed message with symbolic field contents, symbolic QE auth data / chain / extra lengths: serialise then parse "
                "gives back every field",
        "bounds": {"input_length": "0..2^20 symbolic", "qe_auth_data": "0..65535 symbolic", "chain": "0..2^19 symbolic", "extra": "absent or 1..2^18 symbolic"},
        "outside": ["inputs of 4 GiB and more (uint32(len) truncates)"],
        "assumptions": ["fmt.Errorf returns a non-nil error (native model)"],
    },
}

CHECKS["C14"] = {
    "groups": ["c14"],
    "quick": {"match": "^H14", "budget": 900},
    "thorough": {"match": "^[HT]14", "budget": 3000, "query_timeout_ms": 120000},
    "what": "validate.PolicyToOptions on a policy message whose sub-policies are absent/present, every byte field absent or of symbolic "
            "length 1..size+2, SVN minima full uint32, RTMR list 0..5 entries of symbolic length 0..50, allowed-MR_TD 0..2 entries; asserted: "
            "conversion fails iff the statement's malformedness predicate holds, each option equals the literal policy field, and "
            "validate.TdxQuote under the converted options returns without panic and enforces every literal field",
    "bounds": {"rtmr_entries": "0..5", "any_mr_td_entries": "0..2", "byte_field_length": "absent or 1..size+2"},
    "outside": ["non-nil empty byte fields (proto3 decoding never produces them)"],
    "assumptions": ["generated protobuf getters executed for real", "multierr.Combine native model"],
}

# properties not claimed (reason shown in MANIFEST.json)
NOT_APPLICABLE = {}

CHECKS["C10"] = {
    "groups": ["c10", "c13", "pki"],
    "no_native_replay": ["H10g_PckExtensions_ArbitraryDER", "H10h_Verify_AnyMessage", "H10j_Verify_ArbitraryStubAnswers"],
    "quick": {"match": "^H10", "budget": 900},
    "thorough": {"match": "^[HT]10", "budget": 3000, "query_timeout_ms": 120000},
    "what": "every public parsing / serialisation / validation entry point executed on untrusted input with all implicit panic "
            "obligations (nil dereference, index, slice bounds incl. capacity, make size, type assertion, explicit panic) as solver queries "
            "and unwinding assertions on every loop H10k/l: verify.SupportedTcbLevelsFromCollateral on a structurally arbitrary message after an accepted verification with collateral, on options without collateral and on nil arguments",
    "bounds": {"raw_input_length": "0..2^20 symbolic", "message_field_length": "0..70000 symbolic (0..100 for validation)", "rtmr_count": "0..5"},
    "outside": ["panics inside the Go standard library or dependencies behind stubs", "inputs of 4 GiB and more"],
    "assumptions": ["fmt.Errorf returns a non-nil error; logger is a no-op"],
}

CHECKS["C15"] = {
    "groups": ["c15"],
    "no_native_replay": ["H15b_RawQuoteViaProvider", "H15d_GetQuoteParsesTheRawBytes"],
    "quick": {"match": "^H15", "budget": 600},
    "thorough": {"match": "^H15", "budget": 3000, "query_timeout_ms": 120000},
    "what": "client.GetRawQuote / GetQuote against a scripted client.Device and client.QuoteProvider (harness Go code implementing the "
            "repository's own interfaces) whose results, status, OutLen (full uint32) and buffers are symbolic; asserted: the report request carries "
            "the caller's 64 bytes, the quote request carries the 1024-byte TD report (InLen 1024, Length 16384), err == nil iff every device outcome "
            "is good and 0 < OutLen <= 16384, the result is exactly the first OutLen bytes the device wrote; provider bytes/error verbatim, no device "
            "access when supported, fall-back when not; GetQuote parses exactly the fetched bytes H15f: a raw quote handed out earlier is unchanged after a later fetch of any outcome (no buffer shared between calls)",
    "bounds": {"device_results": "full uintptr/uint64/uint32", "buffers": "1024-byte report, 16384-byte quote buffer, all symbolic"},
    "outside": ["the real ioctl path behind unsafe.Pointer (LinuxDevice.Ioctl is replaced by the scripted device after unix.Open)", "the real configfs quote provider"],
    "assumptions": ["unix.Open returns (fd, nil) or (-1, err)", "abi.QuoteToProto is a stub in H15d (it is C09/C10's subject)"],
}

CHECKS["C07"] = {
    "groups": ["c07"],
    "quick": {"match": "^H07", "budget": 600},
    "thorough": {"match": "^[HT]07", "budget": 3000, "query_timeout_ms": 120000},
    "what": "verify.verifyQeReport (applyMask, checkQeTcbStatus, readQeTcbStatus) on a QE report with symbolic MISCSELECT, ATTRIBUTES, MRSIGNER, "
            "ISVPRODID, ISVSVN against a QE identity whose values and masks have symbolic content and symbolic length (miscselect/mask 0..5, "
            "attributes/mask 15..17, mrsigner 31..33) and k ordered TCB levels with symbolic isvsvn and symbolic status string; asserted: "
            "(err == nil) equals the statement written byte-wise",
    "bounds": {"tcb_levels": "0..3 (thorough: 5)", "status": "arbitrary string (opaque atom; the 7 constants are particular values)"},
    "outside": ["JSON decoding of the identity (HexBytes / TcbComponentStatus UnmarshalJSON run behind the encoding/json stub)"],
    "assumptions": ["logger is a no-op; fmt.Errorf returns non-nil"],
}

CHECKS["C04"] = {
    "groups": ["c04"],
    "quick": {"match": "^H04", "budget": 600},
    "thorough": {"match": "^[HT]04", "budget": 3000, "query_timeout_ms": 120000},
    "what": "verify.verifyTdQuoteBody (applyMask, checkTcbInfoTcbStatus, readTcbInfoTcbStatus, getMatchingTcbLevel, isCPUSvnHigherOrEqual, "
            "isTdxTcbSvnHigherOrEqual, getMatchingTdxModuleTcbLevel) and SupportedTcbLevelsFromCollateral on symbolic platform SVN vectors "
            "(16 SGX components, PCE SVN, 16 TEE TCB SVN bytes), symbolic identity fields (FMSPC/PCE-ID strings, MRSIGNERSEAM, attributes and mask of "
            "symbolic length 7..9 / 47..49), k ordered TCB levels (2x16 component SVNs, PCE SVN, status string all symbolic) and m TDX module "
            "identities with l levels each (id string of symbolic length <= 8, isvsvn, status symbolic); asserted: (err == nil) equals a reference "
            "implementation of the statement; the reporting API errors when no level matches",
    "bounds": {"platform_levels": "k<=2 quick, k<=4 thorough", "module_identities": "m<=1 quick, m<=2 thorough", "module_levels": "l<=2 quick, l<=3 thorough"},
    "outside": ["non-ASCII FMSPC strings (strings.EqualFold is modelled for ASCII)", "whether a case-variant PCE-ID matches is asserted exactly as the anchor states (exact match)"],
    "assumptions": ["strings.EqualFold = ASCII case folding (native model)", "encoding/hex.EncodeToString native model (lower-case hex)", "logger no-op"],
}

CHECKS["C13"] = {
    "groups": ["c13"],
    "quick": {"match": "^H13", "budget": 600},
    "thorough": {"match": "^[HT]13", "budget": 3000, "query_timeout_ms": 120000},
    "seeded_perm": "harness/c13/pcs/seed_gen.go",
    "what": "pcs.PckCertificateExtensions (findMatchingExtension, extractSgxExtensions, extractAsn1SequenceTcbExtension, extractTcbExtension, "
            "extractAsn1OctetStringExtension, asn1OctetString, asn1U8, asn1U16, sgxTcbComponentOid, ObjectIdentifier.Equal) with encoding/asn1.Unmarshal "
            "replaced by a contract stub that delivers the decoded structure the harness attached to each DER blob; all 18 TCB values symbolic int64, "
            "CPUSVN / PPID / PCE-ID / FMSPC of symbolic length around the required size and symbolic content; orders: 5 permutations of the 18 TCB "
            "elements (one derived from VERIF_SEED) x 4 of the sub-extensions; n<=3 elements with symbolic OID arc 1..20; malformed variants Platform certificates: 7 sub-extensions (SGX type, platform instance id, configuration besides the mandatory four) in 6 orders, one derived from VERIF_SEED",
    "bounds": {"tcb_element_orders": "4 fixed + 1 seeded permutation", "sub_extension_orders": "4", "symbolic_oid_elements": "n<=3, arc 1..20"},
    "outside": ["field values whose raw bytes happen to parse as a nested DER OCTET STRING themselves (the ASN.1 decoder is a contract stub: seeded change C13L passes)", "encoding/asn1's DER decoding itself", "certificates whose SGX extension omits an element while keeping the element count",
                "order independence for all 18! orders: decided for 5 orders plus, for n<=3 elements with symbolic OIDs, that each element updates exactly its own slot"],
    "assumptions": ["encoding/asn1.Unmarshal decodes DER correctly (stub delivers the attached structure, fails on type mismatch)", "encoding/hex.EncodeToString native model"],
    "no_native_replay": ["H13a_ValuesAnyOrder", "H13b_NestedOctetStrings", "H13c_Malformed", "H13d_SymbolicOidArcs"],
}

CHECKS["C17"] = {
    "groups": ["c17"],
    "quick": {"match": "^H17", "budget": 600},
    "thorough": {"match": "^[HT]17", "budget": 3000, "query_timeout_ms": 120000},
    "replay": "model",
    "native_replay": ["H17d_Deep_ExtendDigest", "H17e_Deep_ExtendEventLog", "H17f_Deep_TwoRequestsOneIndex"],
    "what": "rtmr.ExtendDigestClient / ExtendEventLogClient with index full int64, digest of symbolic length 0..64, hash algorithm symbolic, event "
            "log of symbolic length 0..128, against a model TSM (harness configfsi.Client) with four registers of symbolic content; the dependency "
            "go-configfs-tsm/rtmr.ExtendDigest is replaced by its contract; asserted: invalid request => error and zero operations, valid => exactly "
            "one extend of exactly the digest (or SHA-384 of the log) on the requested index; one inductive step from an arbitrary register state. "
            "Deep mode (H17d-f): go-configfs-tsm (rtmr, configfsi) is executed for real against a model configfs tree (entries, index / digest / tcg_map "
            "files) with no, a matching, another or both entries present: an invalid request performs no tree-changing operation at all (whichever "
            "function of the dependency the code calls), a valid one re-uses the entry bound to the index or creates and binds exactly one, then "
            "writes exactly the digest once; two requests for one index leave one entry holding the extend chain in call order",
    "bounds": {"index": "full int64 (contract mode); {-1,0,1,2,3,4} (deep mode: concrete paths and decimal strings)", "digest_length": "0..64 (46..50 deep)", "event_log_length": "0..128 (0..40 deep)"},
    "outside": ["the kernel's configfs semantics (model tree: index writable once, digest write extends, 48-byte digests only)"],
    "assumptions": ["rtmr.ExtendDigest of go-configfs-tsm v0.3.2 performs one digest write on the entry bound to the index (contract stub)",
                    "SHA-384 (every entry point of crypto/sha512) is one model hash function of the message bytes; the specification side calls sha512.Sum384 itself"],
}

CHECKS["C20"] = {
    "groups": ["c20"],
    "quick": {"match": "^H20", "budget": 600},
    "thorough": {"match": "^[HT]20", "budget": 3000, "query_timeout_ms": 120000},
    "replay": "model",
    "what": "trust.RetryHTTPSGetter.Get and DefaultHTTPSGetter with symbolic Timeout and MaxRetryDelay, a wrapped getter whose every call takes a "
            "symbolic duration >= 0 and fails or succeeds by a symbolic boolean, and a model clock: context.WithTimeout / time.After are model "
            "channels with a fire time and the SSA select picks any channel ready at the earliest fire time; asserted: first success returned "
            "as the very objects and no later call, every wait > 0 and <= MaxRetryDelay, no attempt starts after the deadline, on persistent "
            "failure an error by the deadline or the end of the attempt in flight, attempts <= K H20d: 40 attempts (maximum delay 1..1000 ns, calls take no time): waits stay > 0 and <= the maximum beyond the 32nd doubling; H20e: a getter value used before (any time ago) still retries and returns a success that comes inside its timeout; H20f: MaxRetryDelay == 0: every wait between the first 5 attempts is 0 (the cap holds), a first success is returned intact",
    "bounds": {"attempts": "K = 6 quick, 12 thorough (unwinding assertion; Timeout <= (K-2)*min(4s, MaxRetryDelay)); 40 attempts in H20d with MaxRetryDelay <= 1000 ns; the first 5 attempts in H20f", "MaxRetryDelay": "> 0; == 0 for the cap and the intact-success assertions only (H20f)"},
    "outside": ["MaxRetryDelay < 0; for MaxRetryDelay == 0 the no-busy-loop and bounded-time requirements (a wait can be neither longer than 0 nor positive, and termination is probabilistic when the deadline and a 0-delay timer are ready together)",
                "wall-clock behaviour of the real runtime and scheduler", "overflow of the running sum delay + delay (needs > 2^32 s of waiting)",
                "more than 40 consecutive failures"],
    "assumptions": ["Go select semantics: blocks until a case is ready, picks any ready case (model)", "context.WithTimeout's Done channel fires at the deadline (model)",
                    "time.After / time.NewTimer(+Stop, Reset) channels fire after their duration of model time; time.Sleep advances model time"],
}

PKI_ASSUME = [
    "ecdsa.VerifyASN1 = uninterpreted predicate ECDSA_P256(X, Y, digest, r, s) of exactly these five values",
    "crypto/sha256 and crypto/sha512 (New/Write/Sum, Sum256, Sum384, crypto.Hash.New) = one model hash per algorithm: initial state, uninterpreted step per "
    "32-byte block (bytes past the end read as zero), uninterpreted finalisation over state and length; equal messages have equal digests, nothing else is known "
    "(no collision-freeness assumed)",
    "Certificate.CheckSignature = uninterpreted predicate of (key id, algorithm, signed bytes / document id, r, s)",
    "Certificate.CheckSignatureFrom nil implies SigBy(cert, parent key); Name.String() is a deterministic function of the name",
    "Certificate.Verify = Go's documented path validation over the pools (model: <= 1 intermediate per path)",
    "pem.Decode / x509.ParseCertificate / ParseRevocationList / json.Unmarshal deliver the structure the harness attached to the blob",
    "pcs.PckCertificateExtensions summarised (decided by C13)", "stubs do not write to their arguments",
]

CHECKS["C01"] = {
    "groups": ["pki", "c01"],
    "quick": {"match": "^H01", "budget": 900},
    "thorough": {"match": "^[HT]01", "budget": 3000, "query_timeout_ms": 120000},
    "replay": "model",
    "what": "verify.TdxQuote (tdxQuoteV4, verifyEvidenceV4, verifyQuote, verifyHash256, tdxProtoQeReportSignature, bytesToEcdsaPubKey, "
            "abi.SignatureToDER, Header/TdQuoteBody/EnclaveReportToAbiBytes, extractChainFromQuoteV4, verifyPCKCertificationChain) on a structurally "
            "valid quote with every byte symbolic and an abstract three-certificate chain with symbolic attributes; asserted: err == nil implies "
            "ECDSA_P256(key halves, SHA256(harness's own serialisation of header||body), signature halves), report data = SHA256(key||auth) || 0^32, "
            "and CertSig(leaf key, ECDSAWithSHA256, harness's own QE report bytes, QE signature halves). H01g: a two-quote history (a second, different "
            "quote verified after an accepted first one, fresh options) - the links must hold for the second quote's own bytes and leaf key. H01i: ONE message and ONE options value: after an "
            "accepted verification a region of the message (report data, header user data, attestation key, QE report, auth data) is replaced in place and the message "
            "verified again - the links must hold for what it now contains. H01h: the "
            "message's integer fields are unconstrained uint32 (not pre-truncated to their wire width): an accepted message has no bit outside the wire format",
    "bounds": {"qe_auth_data_length": "{0, 1, 32, 33} quick, + {31, 64} thorough", "trusted_pool": "nil / 1 / 2 certificates", "history": "2 verifications"},
    "outside": ["that ECDSA / SHA-256 are unforgeable / collision free (the 'no bit can change' corollary is cryptographic)", "PCK leaf keys that are not ECDSA keys (every model certificate carries an *ecdsa.PublicKey object; seeded change C01M ends inconclusive)", "Unicode case folding over the report data (seeded change C01N, bytes.EqualFold: the run does not finish and has to be stopped by the caller's time limit)"],
    "assumptions": PKI_ASSUME,
}

CHECKS["C02"] = {
    "groups": ["pki", "c02"],
    "quick": {"match": "^H02", "budget": 900},
    "thorough": {"match": "^[HT]02", "budget": 3000, "query_timeout_ms": 120000},
    "replay": "model",
    "what": "verify.TdxQuote (extractChainFromQuoteV4, verifyPCKCertificationChain, validateCertificate, validateX509Cert, x509Options) on chain blobs "
            "with 2..4 PEM blocks of symbolic type and a symbolic tail, certificates with fully symbolic attributes and key ids (look-alike names with "
            "different keys included), caller pool nil / 1 / 2 certificates; asserted: accept implies three CERTIFICATE blocks + optional NUL, role "
            "names / v3 / ECDSA-SHA256 / P-256 for each position, issuer = parent subject, SigBy on every link incl. self-signed root, and the path "
            "model holds for the CONFIGURED roots (a leaf whose SGX extension is marked critical is refused by path validation; Verify fails with one of "
            "crypto/x509's error types); H02h: a second verification with OTHER configured roots after an accepted first one is anchored in its own pool; "
            "RootOfTrustToOptions / getTrustedRoots: pool = exactly the listed certificates, error iff a bundle is unreadable or empty (blank and white-space "
            "inline bundles included)",
    "bounds": {"pem_blocks": "2..4 (5 thorough)", "trusted_pool": "nil, empty, 1, 2 certificates (3 thorough)", "bundles": "<= 2 files + <= 2 inline, <= 2 certificates each", "history": "2-3 verifications, fresh options or the same options value with TrustedRoots replaced"},
    "outside": ["Go's path builder itself (contract stub)", "non-PEM text that encoding/pem skips before or between blocks"],
    "assumptions": PKI_ASSUME,
}

CHECKS["C03"] = {
    "groups": ["pki", "c04", "c07", "c03"],
    "quick": {"match": "^H03", "budget": 900},
    "thorough": {"match": "^[HT]03", "budget": 3000, "query_timeout_ms": 120000},
    "replay": "model",
    "what": "verify.TdxQuote with GetCollateral (obtainCollateral, getTcbInfo, getQeIdentity, headerToIssuerChain, bodyToRawMessage, verifyCollateral, "
            "verifyTCBinfo, verifyQeIdentity, verifyResponse, validateCertificate) against a scripted getter whose responses are symbolic: issuer "
            "chain certificates with symbolic attributes, a body that decodes (whole) to one symbolic document and whose exact-key member decodes "
            "to another, independent, symbolic document; asserted: accept implies root self-signed 'Intel SGX Root CA', signer 'Intel SGX TCB "
            "Signing' issued by it, signer path-valid to the configured roots at its own time, CertSig(signer key, raw member, signature), "
            "TDX/3 resp. TD_QE/2 and non-empty levels of the SIGNED member, and the C04 / C07 reference verdicts evaluated on the SIGNED member; H03f: the "
            "signed member omits fields the unsigned body carries (encoding/json merge semantics); H03g: a response without the signed member, fetched "
            "after a good one through the same process (pooled decoders / buffers), is rejected",
    "bounds": {"tcb_levels": "0..1 quick, 2 thorough", "module_identities": "0..1", "qe_levels": "1", "header_shapes": "missing / no value / two values / empty / undecodable / nil map"},
    "outside": ["JSON grammar; what exactly encoding/json accepts as a duplicate key (no relation between decoding the body and decoding its member is assumed)",
                "encoding/json's merge semantics are modelled for three members only (tdxModuleIdentities, fmspc, QE tcbLevels may be omitted by the signed member)"],
    "assumptions": PKI_ASSUME + ["encoding/json.Unmarshal is a deterministic function of (document, target type)", "url.QueryUnescape / hex.DecodeString deterministic functions of the string"],
}

CHECKS["C05"] = {
    "groups": ["pki", "c05"],
    "quick": {"match": "^H05", "budget": 900},
    "thorough": {"match": "^[HT]05", "budget": 3000, "query_timeout_ms": 120000},
    "replay": "model",
    "what": "verify.TdxQuote with GetCollateral and CheckRevocations (obtainCollateral, getPckCrl, getRootCrl, bodyToCrl, validateCRL, the revocation "
            "parts of verifyPCKCertificationChain and verifyResponse, verifyCollateral) with CRLs of 0..3 revoked serials (symbolic), symbolic CRL "
            "issuer names and signers, 0..3 root-CRL distribution points each answering ok / error / garbage; asserted: accept implies both CRLs "
            "obtained, CrlSigBy(root CRL, chain root) and for the collateral issuer roots, CrlSigBy(PCK CRL, intermediate), issuer names match, leaf "
            "serial not in the PCK CRL, intermediate / TCB-Info signer / QE-Identity signer serials not in the Root CA CRL; revocation without "
            "collateral always fails and fetches nothing H05g: the same conditions on an options value that verified the quote before (collateral only); H05h: an options value that fetched collateral before and is switched to revocation-without-collateral fails and fetches nothing",
    "bounds": {"revoked_entries_per_crl": "0..1 quick, 0..3 thorough", "distribution_points": "0..2 quick, 3 thorough", "serials": "64-bit symbolic"},
    "outside": ["serial numbers wider than 64 bits; byte / text forms of serial numbers (big.Int.Bytes / Text are not modelled: seeded change C05N ends inconclusive)", "CRL parsing itself (contract stub)"],
    "assumptions": PKI_ASSUME + ["RevocationList.CheckSignatureFrom nil iff CrlSigBy(crl, parent key)", "big.Int.Cmp compares the serial values"],
}

CHECKS["C06"] = {
    "groups": ["pki", "c06"],
    "quick": {"match": "^H06", "budget": 900},
    "thorough": {"match": "^[HT]06", "budget": 3000, "query_timeout_ms": 120000},
    "replay": "model",
    "what": "verify.TdxQuote at the three option levels with five symbolic verification instants (unconstrained relative to each other), symbolic "
            "NotBefore/NotAfter of all nine certificate roles and symbolic nextUpdate of both documents and both CRLs; asserted: accept implies each "
            "artifact is not past its limit at ITS OWN time-set entry and path elements are inside their validity window; also with Options.Now nil "
            "(time.Now stubbed by a symbolic wall clock) H06g (T06h with revocation): the same conditions on an options value that verified the same quote at earlier, unrelated times",
    "bounds": {"times": "0..2^40 s, all symbolic"},
    "outside": ["wall-clock reads between the five time.Now() calls of defaultTimeSet are one instant in the model", "time arithmetic that divides by 1e9 (Truncate / Round / Unix on symbolic instants: solver unknown, seeded change C06M ends inconclusive)", "maps keyed by symbolic strings (seeded change C06N ends inconclusive)"],
    "assumptions": PKI_ASSUME + ["time.Time.After/Before/Equal executed for real (merged)"],
}

CHECKS["C12"] = {
    "groups": ["pki", "c12"],
    "quick": {"match": "^H12", "budget": 900},
    "thorough": {"match": "^[HT]12", "budget": 3000, "query_timeout_ms": 120000},
    "replay": "model",
    "what": "verify.TdxQuote executed several times in one symbolic world (stub outcomes are uninterpreted functions of their arguments, the getter is "
            "a map from URL to response): accepted with revocation => accepted with collateral => accepted without; recording getter: no fetch "
            "without GetCollateral, CRL endpoints only with CheckRevocations, TCB-info URL names the PCK FMSPC, PCK-CRL URL names platform / "
            "processor by the leaf's issuer; an options value with arbitrary private pre-state gives the verdict and requests of a fresh one; "
            "frame condition: exported option fields unchanged by a call",
    "bounds": {"tcb_levels": "1", "module_identities": "0..1", "distribution_points": "0..2", "revoked_entries": "0..1"},
    "outside": ["histories longer than one earlier call are covered by the one-step pre-state independence + frame argument (DESIGN.md C12), not enumerated"],
    "assumptions": PKI_ASSUME,
}

CHECKS["C11"] = {
    "groups": ["pki", "c01", "c03", "c04", "c05", "c07", "c11"],
    "quick": {"match": "^H11", "budget": 900},
    "thorough": {"match": "^[HT]11", "budget": 3000, "query_timeout_ms": 120000},
    "replay": "model",
    "native_replay": ["H11e_SignatureToDER", "H11f_SignatureToDER_WrongLength", "H11j_RawFormOfHonestQuoteParses"],
    "what": "verify.TdxQuote at the three option levels in the HONEST world: the stubs are constrained to what an honest platform and endpoint "
            "produce (signature predicates true on the harness's own serialisations, report data = SHA256(key||auth)||0, three well-formed "
            "CERTIFICATE blocks with optional trailing NUL, chain root = trusted root, all instants inside all windows, matching identity fields, a "
            "matching UpToDate level at any position among 2, CRLs listing only other serials, some distribution point answering); all field "
            "contents, QE auth data lengths {0,32,64} (thorough: 1, 200), symbolic-length extra bytes; asserted: err == nil H11g/h: the same on an options value carrying arbitrary private left-overs (another platform's chain, collateral, extensions). H11e/f: abi.SignatureToDER with golang.org/x/crypto/cryptobyte executed for real: for every 64-byte r||s the output is the minimal DER SEQUENCE{INTEGER r, INTEGER s} (leading zero octets stripped, 0x00 prefixed when the top bit is set, zero = 02 01 00), other lengths are errors",
    "bounds": {"tcb_levels": "2", "module_identities": "1", "qe_levels": "2", "distribution_points": "2", "qe_auth_data": "{0,32,64} quick, +{1,200} thorough"},
    "outside": ["acceptance of Intel's sample quote under real cryptography (a concrete run the repository's tests already do)",
                "formatting of symbolic integers wider than 32 bits or with verbs other than %d %x %v (opaque strings)",
                "Processor-CA intermediates (rejected by the fixed name check; recorded as a modelling decision, not claimed either way)"],
    "assumptions": PKI_ASSUME,
}

CHECKS["C16"] = {
    "groups": ["pki", "c16", "c13"],
    "quick": {"match": "^H16", "budget": 900},
    "thorough": {"match": "^[HT]16", "budget": 3000, "query_timeout_ms": 120000},
    "no_native_replay": ["H16a_ParseCopies", "H16b_ParsedQuote_Base", "H16c_ParsedQuote_Collateral", "T16d_ParsedQuote_Revocation", "H16e_SpareCapacity", "H16f_ExactCapacity", "H16p_PckExtensionsWriteNothingShared"],
    "what": "the engine's heap is concrete per path, so aliasing and write sets are exact: the quote (parsed from bytes: fields are views with large "
            "capacity; built with spare capacity; built with cap == len), the raw input and the option byte strings are frozen over their whole "
            "backing store (to capacity) together with the repository's package-level variables, then verify.TdxQuote (three levels, stubs answering "
            "symbolically), ExtractChainFromQuote, abi.QuoteToAbiBytes and validate.TdxQuote run; any store / copy / in-place append into frozen "
            "memory on a feasible path is a finding; parse result disjoint from the input; serialisation result is fresh memory H16p: pcs.PckCertificateExtensions with every package-level variable of the module frozen together with everything reachable from it, spare capacity included (re-allocating appends get the capacity the gc runtime gives them)",
    "bounds": {"tcb_levels": "1", "qe_auth_data": "16 / 32 bytes", "spare_capacity": "16..48 bytes (symbolic contents)"},
    "outside": ["interleavings are not explored: absence of shared writes (write-set argument, DESIGN.md C16) is what rules out data races",
                "writes inside library code behind stubs (assumed not to write to their arguments)", "logger's own synchronisation"],
    "assumptions": PKI_ASSUME + ["Go's append writes in place iff the result fits the capacity (solver-decided per call)", "package-level memory may be written only inside sync.Once.Do or between Mutex.Lock and Unlock; sync.Map / sync.Pool operations are goroutine-safe by contract (not checked further)"],
}

CHECKS["C18"] = {
    "groups": ["c18"],
    "quick": {"match": "^H18", "budget": 600},
    "thorough": {"match": "^[HT]18", "budget": 3000, "query_timeout_ms": 120000},
    "replay": "model",
    "what": "rtmr.ParseCcelWithTdQuote, GetRtmrsFromTdQuote, getRtmrsFromTdQuoteV4, TdxDefaultOpts with validate.TdxQuote executed for real on a "
            "symbolic quote and symbolic policy, verify.TdxQuote summarised as a symbolic verdict (its content is C01-C07), go-eventlog's "
            "ReplayAndExtract as the uninterpreted predicate ReplayOK(table, log, (index_i, digest_i)); asserted: a state is returned only if "
            "verification passed, the policy verdict is nil and ReplayOK holds for exactly the bank [(i, quote.RTMR[i]) for i < 4]; no replay "
            "before both gates; the default options bind REPORT_DATA to nonce || 0 H18f: a second call on the SAME options and quote objects after a call that returned a state, with the quote no longer verifying / the policy replaced / an RTMR replaced: both gates and the replay run again on the current contents",
    "bounds": {"policy": "none / REPORT_DATA / MR_TD + minimum QE SVN", "rtmr_count_for_extraction": "0..6"},
    "outside": ["go-eventlog's replay itself (contract stub)", "what verify.TdxQuote checks (C01-C07)"],
    "assumptions": ["verify.TdxQuote does not modify the quote (C16)", "ccel.ReplayAndExtract returns a state iff replaying the log reproduces every supplied register"],
}

CHECKS["C19"] = {
    "groups": ["pki", "c19"],
    "quick": {"match": "^H19", "budget": 900},
    "thorough": {"match": "^[HT]19", "budget": 3000, "query_timeout_ms": 120000},
    "replay": "model",
    "what": "(a) verify.TdxQuote with a getter failing at a symbolic point: the returned error satisfies errors.As for *trust.AttestationRecreationErr "
            "or verify.CRLUnavailableErr (model of errors.As / fmt.Errorf %w over the engine's error objects; all formats are constants); "
            "(b) tools/check main, parseConfig, populateConfig, populateRootOfTrust, setBool, setUint32, parseRtmrs, parsePaths, readQuote executed "
            "symbolically with flags (concrete alternatives), decoded config message, file system, protobuf decoding and the verify / validate "
            "verdicts modelled; os.Exit is a model that checks: exit code equals the first failing step's code (1 usage, 2 verification, 3 download, "
            "4 policy, 0 only after verification and validation passed), flag overrides config / unset flag leaves config, no panic",
    "bounds": {"config": "absent / present; policy absent, {}, header only, body only, both; root_of_trust absent / present",
               "flags": "check_crl, get_collateral in {unset, true, false, malformed}; minimum_qe_svn in {unset, 7, 0x10, 2^32, zz}; qe_vendor_id / mr_seam unset or set; rtmrs {unset, valid, bad hex}; trusted_roots unset / one path",
               "verdicts": "verify: ok / plain error / collateral download error / CRL download error; policy conversion and validation ok / error"},
    "outside": ["what prototext / proto decoding accepts as a well-formed config beyond the contract 'a text config naming an unknown field is rejected unless DiscardUnknown is set' (H19e; reports seeded change C19L)", "the real flag parsing, real protobuf decoding, process exit status and stderr of the built binary"],
    "assumptions": PKI_ASSUME + ["errors.As walks %w / multierr wrapping; fmt.Errorf wraps exactly the operands of %w"],
}
