# Per-property configuration of the gosym checks: which harness groups are
# loaded, which harness functions run in which tier, stated bounds and what is
# outside the claim. Read by vcheck; MANIFEST.json registers `./vcheck <id>`.

CHECKS = {
    "C08": {
        "groups": ["c08"],
        "quick": {"match": "^H08", "budget": 900},
        "thorough": {"match": "^H08", "budget": 3000, "query_timeout_ms": 120000},
        "what": "validate.TdxQuote on a structurally valid quote with every content byte symbolic and every option symbolic jointly "
                "(byte expectations of symbolic length 0..size+2 and symbolic content, RTMR list of 0..5 entries, allowed-MR_TD list of 0..3 "
                "non-empty entries, symbolic SVN minima); asserted: (err == nil) equals the statement's verdict written out independently "
                "(own mask literals), and no implicit panic obligation is feasible",
        "bounds": {"rtmr_entries": "0..5", "any_mr_td_entries": "0..3", "option_length": "0..size+2", "quote": "all field contents symbolic; QE auth data 32 bytes"},
        "outside": ["allowed-MR_TD sets containing empty entries (statement leaves the verdict open)",
                    "verdict for a minimum TEE TCB SVN of wrong length (only 'returns an error or success, no crash' is decided)"],
        "assumptions": ["abi.CheckQuoteV4 is executed for real; logger calls are no-ops", "multierr.Combine returns nil iff all its arguments are nil (native model)"],
    },
    "C09": {
        "groups": ["c09"],
        "quick": {"match": "^H09", "budget": 900},
        "thorough": {"match": "^H09", "budget": 3000, "query_timeout_ms": 120000},
        "what": "abi.QuoteToProto / QuoteToAbiBytes executed on a byte string of symbolic total length and symbolic content",
        "bounds": {"input_length": "0..2^20 symbolic"},
        "outside": ["inputs of 4 GiB and more (uint32(len) truncates)"],
        "assumptions": ["fmt.Errorf returns a non-nil error (native model)"],
    },
}

CHECKS["C14"] = {
    "groups": ["c14"],
    "quick": {"match": "^H14", "budget": 900},
    "thorough": {"match": "^[HT]14", "budget": 3000, "query_timeout_ms": 120000},
    "what": "validate.PolicyToOptions on a policy message whose sub-policies are absent/present, every byte field absent or of symbolic "
            "length 1..size+2, SVN minima full uint32, RTMR list 0..5 entries of symbolic length 0..50, allowed-MR_TD 0..2 entries; asserted: "
            "conversion fails iff the statement's malformedness predicate holds, each option equals the literal policy field, and "
            "validate.TdxQuote under the converted options returns without panic and enforces every literal field",
    "bounds": {"rtmr_entries": "0..5", "any_mr_td_entries": "0..2", "byte_field_length": "absent or 1..size+2"},
    "outside": ["non-nil empty byte fields (proto3 decoding never produces them)"],
    "assumptions": ["generated protobuf getters executed for real", "multierr.Combine native model"],
}

# properties not claimed (reason shown in MANIFEST.json)
NOT_APPLICABLE = {}
