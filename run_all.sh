#!/bin/bash
# Runs every registered quick (or $1=thorough) check sequentially and prints one line per property.
tier=${1:-quick}
cd /verif
for p in $(python3 -c "
import sys; sys.path.insert(0,'/verif')
from checks import CHECKS
print(' '.join(sorted(CHECKS)))"); do
  s=$(date +%s)
  out=$(./vcheck $p --tier $tier 2>/dev/null | tail -3 | tr '\n' ' ')
  rc=${PIPESTATUS[0]}
  echo "$p rc=$? $(( $(date +%s) - s ))s :: ${out:0:220}"
done
