#!/bin/bash
# usage: mutants_eval.sh <patch.diff> <property> [more properties]  -- applies a seeded change to /repo, runs the checks, undoes it
p=$1; shift
cd /repo && git status --short | grep -q . && { echo "REPO-NOT-CLEAN"; exit 9; }
git -C /repo apply $p || { echo APPLY-FAILED; exit 1; }
for prop in "$@"; do
  out=$(cd /verif && ./vcheck $prop 2>/dev/null | grep -E "^VIOLATION|^OK|^INCONCLUSIVE|^  " | head -6 | cut -c1-230)
  echo "--- $prop:"; echo "$out"
done
git -C /repo checkout -- .
