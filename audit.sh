#!/bin/bash
# Lists the unexported identifiers of the repository the harnesses refer to; exit 1 if one of them is
# neither used by a test of the repository (so a change that passes the tests cannot rename it) nor
# confined to a white-box file (*_wb.go, which the loader leaves out when it stops compiling).
export GOFLAGS=-mod=mod GOPROXY=off GOSUMDB=off GOTOOLCHAIN=local
cd /verif/engine && go build -o /verif/bin/audit ./cmd/audit || exit 2
cd /verif && ./bin/audit -sets "$(python3 -c "
import sys; sys.path.insert(0,'/verif')
from checks import CHECKS
print(';'.join(sorted(set(','.join(c['groups']) for c in CHECKS.values()))) + ';selftest')")" "$@"
