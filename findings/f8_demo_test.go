package verify

// Native demonstration of finding F8 (property C19): a failure to download collateral must be
// recognisable by its type (errors.As), which the check tool relies on for exit code 3.

import (
	"errors"
	"testing"

	"github.com/google/go-tdx-guest/abi"
	"github.com/google/go-tdx-guest/testing/testdata"
	"github.com/google/go-tdx-guest/verify/trust"
)

type f8Getter struct{}

func (f8Getter) Get(url string) (map[string][]string, []byte, error) {
	return nil, nil, errors.New("network unreachable")
}

func TestF8Demo(t *testing.T) {
	quote, err := abi.QuoteToProto(testdata.RawQuote)
	if err != nil {
		t.Fatal(err)
	}
	err = TdxQuote(quote, &Options{GetCollateral: true, Getter: f8Getter{}})
	if err == nil {
		t.Fatal("expected an error")
	}
	var are *trust.AttestationRecreationErr
	var crl CRLUnavailableErr
	if !errors.As(err, &are) && !errors.As(err, &crl) {
		t.Errorf("download failure is not distinguishable by type: %T %v", err, err)
	}
}
