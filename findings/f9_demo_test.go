package verify

// Native demonstration of finding F9 (property C12): verifying with Options.Now == nil
// must not freeze the verification time inside the caller's options value.

import (
	"testing"

	"github.com/google/go-tdx-guest/abi"
	"github.com/google/go-tdx-guest/testing/testdata"
)

func TestF9Demo(t *testing.T) {
	quote, err := abi.QuoteToProto(testdata.RawQuote)
	if err != nil {
		t.Fatal(err)
	}
	opts := &Options{} // Now == nil: "verify at the current time"
	_ = TdxQuote(quote, opts)
	if opts.Now != nil {
		t.Errorf("TdxQuote stored a time set in the caller's options: a reused options value would verify later quotes at the time of its first use (%v)", opts.Now.PckCertChain)
	}
}
