package verify

// Native demonstration of finding F7 (property C03), run against the real
// encoding/json: an unsigned, differently spelled duplicate member must not
// replace the signed member's values.
//
//   go test -overlay <overlay placing this file in /repo/verify> -run TestF7Demo ./verify

import (
	"bytes"
	"testing"

	testcases "github.com/google/go-tdx-guest/testing"
)

type f7Getter struct{ body []byte }

func (g *f7Getter) Get(url string) (map[string][]string, []byte, error) {
	h, _, err := testcases.TestGetter.Get(url)
	return h, g.body, err
}

func TestF7Demo(t *testing.T) {
	url := "https://api.trustedservices.intel.com/tdx/certification/v4/tcb?fmspc=50806f000000"
	_, body, err := testcases.TestGetter.Get(url)
	if err != nil {
		t.Fatal(err)
	}
	// append an unsigned member "TCBINFO" with a different fmspc after the signed "tcbInfo"
	evil := []byte(`,"TCBINFO":{"id":"TDX","version":3,"fmspc":"ffffffffffff","pceId":"0000","tcbLevels":[]}}`)
	i := bytes.LastIndexByte(body, '}')
	forged := append(append([]byte{}, body[:i]...), evil...)
	col := &Collateral{}
	if err := getTcbInfo("50806f000000", &f7Getter{forged}, col); err != nil {
		t.Fatalf("getTcbInfo: %v", err)
	}
	if got := col.TdxTcbInfo.TcbInfo.Fmspc; got != "50806F000000" && got != "50806f000000" {
		t.Errorf("values used for verification are not those of the signed member: fmspc = %q (signed member says 50806F000000)", got)
	}
}
