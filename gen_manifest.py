#!/usr/bin/env python3
"""Regenerates MANIFEST.json from checks.py (claimed properties) and NOT_APPLICABLE below."""
import json, os, sys
sys.path.insert(0, os.path.dirname(os.path.abspath(__file__)))
from checks import CHECKS, NOT_APPLICABLE

props = [json.loads(l)["id"] for l in open("properties.jsonl")]
baseline = json.load(open("/root/.vp/BASELINE.json"))["cmd"] if os.path.exists("/root/.vp/BASELINE.json") else json.load(open("MANIFEST.json"))["hooks"]["baseline_off_cmd"]
checks = []
for p in props:
    if p not in CHECKS:
        continue
    c = CHECKS[p]
    checks.append({
        "property_id": p,
        "quick_cmd": "./vcheck %s --tier quick" % p,
        "thorough_cmd": "./vcheck %s --tier thorough" % p,
        "evidence_file": "/verif/evidence/%s.json" % p,
        "replay_cmd_template": "./vcheck %s --replay {path}" % p,
        "engine": "gosym",
        "level_claimed": {
            "category": "model_checking",
            "text": c["level_text"] if "level_text" in c else
                    "Bounded symbolic model checking of the real code: " + c["what"] + ". The verdict is z3's unsat of path-condition and negated assertion "
                    "(and of every implicit panic obligation) for all input values inside the stated bounds; it says nothing outside them.",
            "design_ref": "DESIGN.md section 7 (%s)" % p,
        },
        "level_note": "Trusted base: the gosym translator (go/ssa -> SMT-LIB2), z3 4.8.12, and the stub contracts / assumptions: "
                      + "; ".join(c.get("assumptions", [])) + ". Outside the claim: " + "; ".join(c.get("outside", []) or ["nothing beyond the bounds"]) + ".",
        "technique": "SMT-based symbolic execution of go/ssa (own encoder, z3), counterexamples replayed natively",
    })
na = [{"property_id": p, "reason": NOT_APPLICABLE.get(p, "check not built yet (engine under construction); see DESIGN.md section 7")} for p in props if p not in CHECKS]
m = {
    "version": 1,
    "setup_cmd": "cd /verif/engine && GOFLAGS=-mod=mod GOPROXY=off GOSUMDB=off GOTOOLCHAIN=local go build -o /verif/bin/gosym ./cmd/gosym",
    "hooks": {"guard": "verif", "enable": "no hook files: harnesses, models and replay tests are injected at check time with go/packages Overlay and go test -overlay; nothing is written to /repo",
              "baseline_off_cmd": baseline, "source_commits": [], "add_only": True},
    "engines": [{"name": "gosym", "path": "/verif/engine", "serves_properties": [c["property_id"] for c in checks],
                 "kind_free_text": "path-forking symbolic executor over go/ssa of /repo's working tree, SMT-LIB2 to z3 -in"}],
    "checks": checks,
    "not_applicable": na,
    "notes": "solver-based checking of the real code via own go/ssa symbolic executor; see DESIGN.md. Repairs of genuine defects are 'fix:' commits in /repo listed in known_findings.txt.",
}
json.dump(m, open("MANIFEST.json", "w"), indent=1)
print("MANIFEST.json: %d checks, %d not applicable" % (len(checks), len(na)))
